import Skc.Model.Hist
import Mathlib.Tactic.SplitIfs
import Mathlib.Tactic.Tauto

/-! # C10 — results depend only on hyper-parameters, training data and the input  *(partial)*

Model: the abstract object heap of `Skc/Model/Hist.lean`.  Theorem: for EVERY finite history of
public calls on any number of detectors and scorers (shared scorer objects allowed), the part of the
state that a detector's results are computed from — its hyper-parameters, its remembered training
data, what its fitted attributes were computed from, and the hyper-parameters of the scorer it holds
— evolves as a function of the *relevant* calls only: `fit` / `update` / `set_params` on that
detector and `set_params` on its scorer.  `predict` / `transform_scores` on any data, calls on other
detectors (even ones sharing the scorer), scorer fits and evaluations never influence it.  Hence a
detector's outputs equal those of a fresh object that received only the relevant calls.

Partial: the theorem is about the abstract heap.  That the Python objects have no other mutable
state (caches, aliasing beyond the modelled references, sktime's clone / reset) is what the
differential histories of the harness check. -/
namespace Skc

/-- what a detector's results are computed from -/
structure DetView where
  params : Params
  scorer : Nat
  train : Option Data
  fittedOn : Option (Params × Params × Data)
  scorerParams : Params
  deriving DecidableEq

def viewOf (h : Heap) (d : Nat) : DetView :=
  let o := h.dets d
  ⟨o.params, o.scorer, o.train, o.fittedOn, (h.scorers o.scorer).params⟩

/-- the calls that may influence detector `d` holding scorer `s` -/
def relevant (d s : Nat) : Op → Bool
  | .fit d' _ => d' = d
  | .update d' _ => d' = d
  | .setParams d' _ => d' = d
  | .setScorerParams s' _ => s' = s
  | .fitRejected d' _ => d' = d
  | _ => false

/-- effect of a relevant call on the view: a function of the view and the call only -/
def viewStep (sem : Sem) (v : DetView) : Op → DetView
  | .fit _ X => { v with train := some X, fittedOn := some (v.params, v.scorerParams, X) }
  | .update _ X =>
    match v.train with
    | none => v
    | some old =>
      { v with train := some (sem.combine X old),
               fittedOn := some (v.params, v.scorerParams, sem.combine X old) }
  | .setParams _ p => { v with params := p, fittedOn := none, train := none }
  | .setScorerParams _ p => { v with scorerParams := p }
  | .fitRejected _ X => { v with train := some X, fittedOn := none }
  | _ => v

/-- one step: irrelevant calls leave the view alone, relevant ones act through `viewStep` -/
theorem view_step (sem : Sem) (h : Heap) (d : Nat) (op : Op) :
    viewOf (step sem h op).1 d =
      if relevant d (h.dets d).scorer op then viewStep sem (viewOf h d) op else viewOf h d := by
  cases op with
  | fit d' X =>
    by_cases hd : d' = d
    · subst hd; simp [step, viewOf, relevant, viewStep, updD]
    · have hd' : ¬ d = d' := fun h => hd h.symm
      simp [step, viewOf, relevant, updD, hd, hd']
  | update d' X =>
    by_cases hd : d' = d
    · subst hd
      cases ht : (h.dets d').train with
      | none => simp [step, viewOf, relevant, viewStep, ht]
      | some old => simp [step, viewOf, relevant, viewStep, updD, ht]
    · have hd' : ¬ d = d' := fun h => hd h.symm
      cases ht : (h.dets d').train with
      | none => simp [step, viewOf, relevant, hd, ht]
      | some old => simp [step, viewOf, relevant, updD, hd, hd', ht]
  | predict d' X =>
    cases hf : (h.dets d').fittedOn with
    | none => simp [step, viewOf, relevant, hf]
    | some t =>
      obtain ⟨dp, sp, tr⟩ := t
      by_cases hd : d = d'
      · subst hd
        simp only [step, hf, viewOf, relevant, updD, updS, if_true]
        simp
      · simp only [step, hf, viewOf, relevant, updD, updS, hd, if_false]
        by_cases hs : (h.dets d).scorer = (h.dets d').scorer
        · simp [hs]
        · simp [hs]
  | transformScores d' X =>
    cases hf : (h.dets d').fittedOn with
    | none => simp [step, viewOf, relevant, hf]
    | some t =>
      obtain ⟨dp, sp, tr⟩ := t
      by_cases hd : d = d'
      · subst hd
        simp only [step, hf, viewOf, relevant, updD, updS, if_true]
        simp
      · simp only [step, hf, viewOf, relevant, updD, updS, hd, if_false]
        by_cases hs : (h.dets d).scorer = (h.dets d').scorer
        · simp [hs]
        · simp [hs]
  | setParams d' p =>
    by_cases hd : d' = d
    · subst hd; simp [step, viewOf, relevant, viewStep, updD]
    · have hd' : ¬ d = d' := fun h => hd h.symm
      simp [step, viewOf, relevant, updD, hd, hd']
  | setScorerParams s' p =>
    by_cases hs : s' = (h.dets d).scorer
    · subst hs; simp [step, viewOf, relevant, viewStep, updS]
    · have hs' : ¬ (h.dets d).scorer = s' := fun h => hs h.symm
      simp [step, viewOf, relevant, updS, hs, hs']
  | scorerFit s' X =>
    by_cases hs : (h.dets d).scorer = s'
    · simp [step, viewOf, relevant, updS, hs]
    · simp [step, viewOf, relevant, updS, hs]
  | scorerEval s' cuts =>
    cases hf : (h.scorers s').fitted <;> simp [step, viewOf, relevant, hf]
  | fitRejected d' X =>
    by_cases hd : d' = d
    · subst hd; simp [step, viewOf, relevant, viewStep, updD]
    · have hd' : ¬ d = d' := fun h => hd h.symm
      simp [step, viewOf, relevant, updD, hd, hd']
  | updateRejected d' X => simp [step, relevant]
  | scorerFitRejected s' X =>
    by_cases hs : (h.dets d).scorer = s'
    · simp [step, viewOf, relevant, updS, hs]
    · simp [step, viewOf, relevant, updS, hs]

/-- the heap after a history -/
def heapAfter (sem : Sem) : Heap → List Op → Heap
  | h, [] => h
  | h, op :: rest => heapAfter sem (step sem h op).1 rest

/-- the scorer a detector holds never changes -/
theorem scorer_const (sem : Sem) (h : Heap) (d : Nat) (op : Op) :
    ((step sem h op).1.dets d).scorer = (h.dets d).scorer := by
  have := congrArg DetView.scorer (view_step sem h d op)
  simp only [viewOf] at this
  rw [this]
  split_ifs
  · cases op <;> simp [viewStep] <;> (try split) <;> simp
  · rfl

/-- **C10 (model level)**: after ANY history the view of detector `d` is the fold of `viewStep`
    over the relevant calls only. -/
theorem view_after_history (sem : Sem) (d : Nat) : ∀ (ops : List Op) (h : Heap),
    viewOf (heapAfter sem h ops) d =
      (ops.filter (relevant d (h.dets d).scorer)).foldl (viewStep sem) (viewOf h d)
  | [], h => rfl
  | op :: rest, h => by
    simp only [heapAfter]
    rw [view_after_history sem d rest (step sem h op).1, scorer_const, view_step]
    by_cases hr : relevant d (h.dets d).scorer op = true
    · simp [hr, List.filter_cons]
    · simp [hr, List.filter_cons]

/-- **C10**: two histories with the same relevant calls leave detector `d` in the same view, so
    every later `predict` / `transform_scores` returns the same value — earlier predicts, fits of
    other detectors, shared scorers, scorer evaluations do not matter. -/
theorem outputs_depend_on_relevant_calls_only (sem : Sem) (d : Nat) (h : Heap) (ops₁ ops₂ : List Op)
    (hrel : ops₁.filter (relevant d (h.dets d).scorer) = ops₂.filter (relevant d (h.dets d).scorer))
    (X : Data) :
    (step sem (heapAfter sem h ops₁) (.predict d X)).2 =
      (step sem (heapAfter sem h ops₂) (.predict d X)).2 ∧
    (step sem (heapAfter sem h ops₁) (.transformScores d X)).2 =
      (step sem (heapAfter sem h ops₂) (.transformScores d X)).2 := by
  have hv : viewOf (heapAfter sem h ops₁) d = viewOf (heapAfter sem h ops₂) d := by
    rw [view_after_history, view_after_history, hrel]
  have h1 := congrArg DetView.fittedOn hv
  have h2 := congrArg DetView.scorerParams hv
  simp only [viewOf] at h1 h2
  constructor
  · simp only [step]
    rw [h1]
    cases (heapAfter sem h ops₂).dets d |>.fittedOn with
    | none => rfl
    | some t => obtain ⟨dp, sp, tr⟩ := t; simp only; rw [h2]
  · simp only [step]
    rw [h1]
    cases (heapAfter sem h ops₂).dets d |>.fittedOn with
    | none => rfl
    | some t => obtain ⟨dp, sp, tr⟩ := t; simp only; rw [h2]

/-- **C10, update**: `fit(old)` followed by `update(new)` leaves the same view as one `fit` on the
    combined data. -/
theorem update_is_fit_on_combined (sem : Sem) (v : DetView) (old new : Data) :
    viewStep sem (viewStep sem v (.fit 0 old)) (.update 0 new) =
      viewStep sem v (.fit 0 (sem.combine new old)) := by
  simp [viewStep]

/-! ### calls that raise -/

/-- **C10, exception safety (model level)**: after a `fit` that raised, the detector does not answer from an
    earlier fit: `predict` and `transform_scores` raise "not fitted" until the next successful `fit` -/
theorem rejected_fit_leaves_not_fitted (sem : Sem) (h : Heap) (d : Nat) (X Y : Data) :
    (step sem (step sem h (.fitRejected d X)).1 (.predict d Y)).2 = none ∧
    (step sem (step sem h (.fitRejected d X)).1 (.transformScores d Y)).2 = none := by
  simp [step, updD]

/-- … and a later successful `fit` makes the rejected one invisible -/
theorem fit_after_rejected_fit (sem : Sem) (v : DetView) (X Y : Data) :
    viewStep sem (viewStep sem v (.fitRejected 0 X)) (.fit 0 Y) = viewStep sem v (.fit 0 Y) := by
  simp [viewStep]

/-- **C10, exception safety**: an `update` whose batch is rejected changes nothing — the histories with and
    without it are indistinguishable, in particular the next valid `update` gives the fit on the old and the
    new data combined -/
theorem rejected_update_is_invisible (sem : Sem) (h : Heap) (d : Nat) (X : Data) (ops : List Op) :
    runHist sem (step sem h (.updateRejected d X)).1 ops = runHist sem h ops := by
  simp [step]

/-- a scorer whose `fit` raised does not evaluate from an earlier fit -/
theorem rejected_scorer_fit_leaves_not_fitted (sem : Sem) (h : Heap) (s : Nat) (X : Data) (cuts : Nat) :
    (step sem (step sem h (.scorerFitRejected s X)).1 (.scorerEval s cuts)).2 = none := by
  simp [step, updS]

end Skc
