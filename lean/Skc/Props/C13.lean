import Skc.Model.Cuts
import Mathlib.Tactic.Linarith
import Mathlib.Data.List.Basic

/-! # C13 — evaluate either rejects a cuts array or scores exactly the cuts it describes

Model: `checkRow` / `checkRowLocal` / `checkCuts` (`Skc/Model/Cuts.lean`), the validation that
`evaluate` performs before any table look-up or slice.  Theorems: acceptance is *equivalent* to the
property's notion of a valid cut, and every position of an accepted cut lies in `[0, n]`, so no
prefix-sum look-up wraps around (negative index) and no slice is truncated (index past `n`). -/
namespace Skc

/-- the property's valid cut for costs / change scores / savings: `k` integer entries, first
    `≥ 0`, last `≤ n`, consecutive differences `≥ minSize` -/
def ValidRow (n minSize k : Nat) (row : List Int) : Prop :=
  row.length = k ∧ (∀ d ∈ rowDiffs row, (minSize : Int) ≤ d) ∧ ∀ c ∈ row, 0 ≤ c ∧ c ≤ (n : Int)

/-- **C13**: a row is accepted iff it is valid -/
theorem checkRow_ok_iff (n minSize k : Nat) (row : List Int) :
    checkRow n minSize k row = .ok () ↔ ValidRow n minSize k row := by
  unfold checkRow ValidRow
  constructor
  · intro h
    split_ifs at h with g1 g2 g3
    refine ⟨by simpa using g1, ?_, ?_⟩
    · have : (rowDiffs row).all (fun d => decide ((minSize : Int) ≤ d)) = true := by simpa using g2
      simpa [List.all_eq_true] using this
    · intro c hc
      have g3' : ¬ ∃ c ∈ row, c < 0 ∨ (n : Int) < c := by
        simpa [List.any_eq_true] using g3
      have : ¬ (c < 0 ∨ (n : Int) < c) := fun hcc => g3' ⟨c, hc, hcc⟩
      omega
  · rintro ⟨h1, h2, h3⟩
    have hall : (rowDiffs row).all (fun d => decide ((minSize : Int) ≤ d)) = true := by
      simpa [List.all_eq_true] using h2
    have hany : ¬ (row.any (fun c => decide (c < 0 ∨ (n : Int) < c)) = true) := by
      intro g3
      simp only [List.any_eq_true, decide_eq_true_eq] at g3
      obtain ⟨c, hc, hc'⟩ := g3
      have := h3 c hc
      omega
    simp [h1, hall]
    exact h3

theorem wrap64_id (d : Int) (h1 : -9223372036854775808 ≤ d) (h2 : d < 9223372036854775808) :
    wrap64 d = d := by
  unfold wrap64; omega

theorem rowDiffsW_eq (n : Nat) (hn : (n : Int) < 9223372036854775808) : ∀ (row : List Int),
    (∀ c ∈ row, 0 ≤ c ∧ c ≤ (n : Int)) → rowDiffsW row = rowDiffs row
  | [], _ => rfl
  | [_], _ => rfl
  | a :: b :: t, h => by
    have ha := h a (by simp)
    have hb := h b (by simp)
    simp only [rowDiffsW, rowDiffs]
    rw [wrap64_id (b - a) (by omega) (by omega),
      rowDiffsW_eq n hn (b :: t) (fun c hc => h c (List.mem_cons_of_mem a hc))]

/-- **C13, machine arithmetic**: with the differences taken in int64 arithmetic — what the code executes
    once the cuts are normalised to int64 — the accepted rows are still exactly the valid ones, for every
    `n < 2^63`: a wrapped difference can only come from an entry outside `[0, n]`, which the range test rejects -/
theorem checkRowW_ok_iff (n minSize k : Nat) (hn : (n : Int) < 9223372036854775808) (row : List Int) :
    checkRowW n minSize k row = .ok () ↔ ValidRow n minSize k row := by
  rw [← checkRow_ok_iff]
  have key : (∀ c ∈ row, 0 ≤ c ∧ c ≤ (n : Int)) → rowDiffsW row = rowDiffs row := rowDiffsW_eq n hn row
  unfold checkRowW checkRow
  by_cases hr : row.any (fun c => decide (c < 0 ∨ (n : Int) < c)) = true
  · simp only [hr]
    split_ifs <;> simp
  · have hrange : ∀ c ∈ row, 0 ≤ c ∧ c ≤ (n : Int) := by
      intro c hc
      have : ¬ ∃ c ∈ row, c < 0 ∨ (n : Int) < c := by simpa [List.any_eq_true] using hr
      have : ¬ (c < 0 ∨ (n : Int) < c) := fun hcc => this ⟨c, hc, hcc⟩
      omega
    rw [key hrange]

/-- why the range test must look at every entry: in int64 arithmetic the spacing test alone
    accepts the row `[126, -2^63 + 1]` (the difference wraps to a large positive number) -/
example : (rowDiffsW [126, -9223372036854775807]).all (fun d => decide ((1 : Int) ≤ d)) = true := by
  decide

/-- and why cuts of unsigned or narrow dtype are normalised first (finding #24): in 8-bit unsigned
    arithmetic `3 - 5 = 254`, so the invalid row `[5, 3]` passes the spacing test and both entries
    are in range -/
example : ((3 - 5 : Int) % 256 = 254) ∧ (1 : Int) ≤ 254 := by decide

/-- **C13**: no accepted cut indexes outside the prefix-sum tables (`n + 1` rows) or slices past
    the data: every entry is a position in `0..n` -/
theorem accepted_positions_in_range (n minSize k : Nat) (row : List Int)
    (h : checkRow n minSize k row = .ok ()) : ∀ c ∈ row, 0 ≤ c ∧ c ≤ (n : Int) :=
  ((checkRow_ok_iff n minSize k row).1 h).2.2

/-- the property's valid cut for local anomaly scores -/
def ValidRowLocal (n minSize : Nat) (row : List Int) : Prop :=
  ∃ s a b e, row = [s, a, b, e] ∧ 0 ≤ s ∧ s < a ∧ a < b ∧ b < e ∧ e ≤ (n : Int) ∧
    (minSize : Int) ≤ b - a ∧ (minSize : Int) ≤ (a - s) + (e - b)

/-- **C13, local anomaly scores**: accepted iff valid (inner interval and pooled surroundings at
    least `minSize`, strictly increasing, inside `[0, n]`) -/
theorem checkRowLocal_ok_iff (n minSize : Nat) (row : List Int) :
    checkRowLocal n minSize row = .ok () ↔ ValidRowLocal n minSize row := by
  unfold ValidRowLocal
  constructor
  · intro h
    match row, h with
    | [s, a, b, e], h =>
      simp only [checkRowLocal] at h
      split_ifs at h with g1 g2 g3 g4
      exact ⟨s, a, b, e, rfl, by omega, by omega, by omega, by omega, by omega, by omega, by omega⟩
    | [], h => simp [checkRowLocal] at h
    | [_], h => simp [checkRowLocal] at h
    | [_, _], h => simp [checkRowLocal] at h
    | [_, _, _], h => simp [checkRowLocal] at h
    | _ :: _ :: _ :: _ :: _ :: _, h => simp [checkRowLocal] at h
  · rintro ⟨s, a, b, e, rfl, h1, h2, h3, h4, h5, h6, h7⟩
    simp only [checkRowLocal]
    split_ifs with g1 g2 g3 g4 <;> first | rfl | (exfalso; omega)

/-- **C13, batches**: a batch is accepted iff every row is accepted (one invalid row rejects the
    whole call; nothing is evaluated silently) -/
theorem checkCuts_ok_iff (rowCheck : List Int → Except CutsErr Unit) (rows : List (List Int)) :
    checkCuts rowCheck rows = .ok () ↔ ∀ r ∈ rows, rowCheck r = .ok () := by
  induction rows with
  | nil => simp [checkCuts]
  | cons r rs ih =>
    simp only [checkCuts, List.mem_cons, forall_eq_or_imp]
    cases hr : rowCheck r with
    | error e => simp
    | ok u => cases u; simp [ih]

/-- non-vacuity and the negative cases the pinned code accepted silently -/
example : checkRow 25 1 2 [3, 9] = .ok () := by decide
example : checkRow 25 1 2 [-3, 2] = .error .range := by decide
example : checkRow 25 1 2 [20, 30] = .error .range := by decide
example : checkRow 10 1 3 [0, 4, 2] = .error .spacing := by decide
example : checkRowLocal 10 2 [0, 3, 5, 4] = .error .spacing := by decide

end Skc
