import Skc.Model.Datagen
import Mathlib.Algebra.Ring.Defs
import Mathlib.Tactic.Linarith
import Mathlib.Tactic.Ring
import Mathlib.Data.List.Basic

/-! # C18 — data generators place segments exactly where requested

Model: `applySegs` / `changingSegs` / `validChanging` / `validAnomalous` / `linspaceRows`
(`Skc/Model/Datagen.lean`).  Reproducibility for identical arguments and seed is a property of
SciPy's seeded draw (checked by running twice), outside the model: `z` is an arbitrary function. -/
namespace Skc
variable {α : Type} [CommRing α]

/-- segments pairwise disjoint (as row ranges) -/
def DisjointSegs (l : List (Seg α)) : Prop :=
  l.Pairwise (fun a b => a.e ≤ b.s ∨ b.e ≤ a.s)

/-- a row outside every segment keeps its standard-normal value -/
theorem applySegs_outside (z : Nat → α) : ∀ (segs : List (Seg α)) (i : Nat),
    (∀ g ∈ segs, ¬ (g.s ≤ i ∧ i < g.e)) → applySegs z segs i = z i
  | [], _, _ => rfl
  | g :: rest, i, h => by
    have hg := h g (by simp)
    simp only [applySegs]
    rw [applySegs_outside _ rest i (fun g' hg' => h g' (by simp [hg']))]
    simp [hg]

/-- **C18**: with pairwise disjoint segments (sorted changepoints, or disjoint anomalies), a row
    inside segment `g` equals `mean + sd × (the standard-normal output)`, and a row outside every
    segment equals the standard-normal output. -/
theorem applySegs_placement (z : Nat → α) : ∀ (segs : List (Seg α)), DisjointSegs segs →
    ∀ (i : Nat), (∀ g ∈ segs, g.s ≤ i → i < g.e → applySegs z segs i = g.m + g.sd * z i) ∧
      ((∀ g ∈ segs, ¬ (g.s ≤ i ∧ i < g.e)) → applySegs z segs i = z i)
  | [], _, i => by simp [applySegs]
  | g :: rest, hd, i => by
    have hrest : DisjointSegs rest := (List.pairwise_cons.1 hd).2
    have hg := (List.pairwise_cons.1 hd).1
    refine ⟨?_, applySegs_outside z (g :: rest) i⟩
    intro g' hg' h1 h2
    rcases List.mem_cons.1 hg' with rfl | hmem
    · -- i is in the head segment: no later segment touches it
      simp only [applySegs]
      rw [applySegs_outside _ rest i]
      · simp [h1, h2]
      · intro g'' hg''
        have := hg g'' hg''
        omega
    · -- i is in a later segment: the head leaves it unchanged
      have hne : ¬ (g.s ≤ i ∧ i < g.e) := by
        have := hg g' hmem
        omega
      simp only [applySegs]
      have := (applySegs_placement (fun i => if g.s ≤ i ∧ i < g.e then g.m + g.sd * z i else z i)
        rest hrest i).1 g' hmem h1 h2
      rw [this]; simp [hne]

/-- the segments built from strictly increasing changepoints in `[s, n]` are pairwise disjoint
    and start at or after `s` -/
theorem changingSegs_disjoint (n : Nat) : ∀ (s : Nat) (cps : List Nat) (ps : List (α × α)),
    cps.Pairwise (· ≤ ·) → (∀ c ∈ cps, s ≤ c) →
    DisjointSegs (changingSegs n s cps ps) ∧ ∀ g ∈ changingSegs n s cps ps, s ≤ g.s
  | s, [], [], _, _ => by simp [changingSegs, DisjointSegs]
  | s, [], (m, sd) :: _, _, _ => by simp [changingSegs, DisjointSegs]
  | s, c :: cs, [], _, _ => by simp [changingSegs, DisjointSegs]
  | s, c :: cs, (m, sd) :: ps, hs, hge => by
    have hc : s ≤ c := hge c (by simp)
    obtain ⟨ih1, ih2⟩ := changingSegs_disjoint n c cs ps (List.pairwise_cons.1 hs).2
      (fun x hx => (List.pairwise_cons.1 hs).1 x hx)
    simp only [changingSegs]
    refine ⟨List.pairwise_cons.2 ⟨?_, ih1⟩, ?_⟩
    · intro g hg
      left
      exact ih2 g hg
    · intro g hg
      rcases List.mem_cons.1 hg with rfl | hg
      · exact le_refl _
      · exact le_trans hc (ih2 g hg)

/-- **C18, outliers (ideal spacing)**: for `2 ≤ k ≤ n` the rows `⌊i (n-1)/(k-1)⌋` are strictly
    increasing (hence `k` distinct rows), start at the first row and end at the last. -/
theorem linspaceRows_spec (n k : Nat) (hk : 2 ≤ k) (hkn : k ≤ n) :
    (linspaceRows n k).length = k ∧ (linspaceRows n k)[0]? = some 0 ∧
    (linspaceRows n k)[k - 1]? = some (n - 1) ∧
    ∀ i, i + 1 < k → i * (n - 1) / (k - 1) < (i + 1) * (n - 1) / (k - 1) := by
  have hk1 : ¬ k ≤ 1 := by omega
  refine ⟨by simp [linspaceRows], ?_, ?_, ?_⟩
  · simp only [linspaceRows, List.getElem?_map, List.getElem?_range (by omega : 0 < k),
      Option.map_some, hk1, if_false]
    simp
  · simp only [linspaceRows, List.getElem?_map, List.getElem?_range (by omega : k - 1 < k),
      Option.map_some, hk1, if_false]
    congr 1
    exact Nat.mul_div_cancel_left _ (by omega)
  · intro i _
    have hpos : 0 < k - 1 := by omega
    have hstep : k - 1 ≤ n - 1 := by omega
    have e : (i + 1) * (n - 1) = i * (n - 1) + (n - 1) := by ring
    rw [e]
    calc i * (n - 1) / (k - 1) < i * (n - 1) / (k - 1) + 1 := Nat.lt_succ_self _
      _ = (i * (n - 1) + (k - 1)) / (k - 1) := by rw [Nat.add_div_right _ hpos]
      _ ≤ (i * (n - 1) + (n - 1)) / (k - 1) := Nat.div_le_div_right (by omega)

/-- **C18, validation**: `generate_changing_data` accepts its arguments iff the numbers of means
    and variances equal the number of segments and every changepoint lies in `[0, n-1]` -/
theorem validChanging_iff (n : Nat) (cps : List Int) (a b : Nat) :
    validChanging n cps a b = true ↔
      a = cps.length + 1 ∧ b = cps.length + 1 ∧ ∀ c ∈ cps, 0 ≤ c ∧ c ≤ (n : Int) - 1 := by
  simp [validChanging, List.all_eq_true, and_assoc]

theorem validAnomalous_iff (n : Nat) (anoms : List (Int × Int)) (a b : Nat) :
    validAnomalous n anoms a b = true ↔
      a = anoms.length ∧ b = anoms.length ∧
        ∀ x ∈ anoms, x.1 < x.2 ∧ 0 ≤ x.1 ∧ x.2 ≤ (n : Int) := by
  simp [validAnomalous, List.all_eq_true, and_assoc]

/-- non-vacuity -/
example : applySegs (fun i => (i : Int)) [⟨2, 4, 10, 2⟩, ⟨4, 5, -1, 3⟩] 3 = 16 := by decide
example : linspaceRows 10 4 = [0, 3, 6, 9] := by decide

end Skc
