import Skc.Props.C02
import Skc.Props.C03
import Skc.Props.C07
import Skc.Props.C09
import Skc.Lemmas.Where

/-! # C04 — detections are well-formed and respect the configured length limits

Corollaries of the algorithm theorems, stated on the models' outputs.  Output formatting by pandas
(`RangeIndex(0..K-1)`, `int64`, left-closed `IntervalIndex`, labels `1..K`) is observed by the
correspondence checks, not modelled. -/
namespace Skc

/-! ### PELT -/

/-- what `ValidFrom` says elementwise: strictly increasing, every changepoint at least `m` from
    both ends, consecutive changepoints at least `m` apart -/
theorem validFrom_elementwise (m : Nat) (hm : 1 ≤ m) : ∀ (cps : List Nat) (s e : Nat),
    ValidFrom m s cps e →
      cps.Pairwise (fun a b => a + m ≤ b) ∧ ∀ c ∈ cps, s + m ≤ c ∧ c + m ≤ e
  | [], _, _, _ => by simp
  | c :: cs, s, e, h => by
    obtain ⟨h1, h2⟩ := h
    obtain ⟨ih1, ih2⟩ := validFrom_elementwise m hm cs c e h2
    have hce := validFrom_start_le m c cs e h2
    refine ⟨List.pairwise_cons.2 ⟨fun b hb => (ih2 b hb).1, ih1⟩, ?_⟩
    intro x hx
    rcases List.mem_cons.1 hx with rfl | hx
    · exact ⟨h1, hce⟩
    · have := ih2 x hx; omega

/-- **C04, PELT**: the changepoints are strictly increasing integers in `[m, n - m] ⊆ [1, n-1]`
    and leave every segment, including the first and last, at least `m` long. -/
theorem peltG_changepoints_wellformed {α : Type} [AddCommGroup α] [LinearOrder α]
    [IsOrderedAddMonoid α] (pick : (Nat → α) → List Nat → Nat) (pr : α → α → Bool)
    (hpick : SoundPick pick) (hpr : SoundPrune pr) (cost : Nat → Nat → α) (pen : α) (m delay n : Nat)
    (hm : 1 ≤ m) (hd : m ≤ delay + 1) (hn : 2 * m ≤ n) (hsplit : SplitIneq cost m n) :
    let cps := (runPelt pick pr cost pen m delay n).2
    cps.Pairwise (fun a b => a + m ≤ b) ∧ ∀ c ∈ cps, m ≤ c ∧ c + m ≤ n := by
  intro cps
  have h := (pelt_optimal pick pr hpick hpr cost pen m delay n hm hd hn hsplit).1
  have := validFrom_elementwise m hm cps 0 n h
  simpa using this

/-- the code's policy (first minimiser, strict pruning test, delay `m − 1`) -/
theorem pelt_changepoints_wellformed {α : Type} [AddCommGroup α] [LinearOrder α]
    [IsOrderedAddMonoid α] (cost : Nat → Nat → α) (pen : α) (m n : Nat)
    (hm : 1 ≤ m) (hn : 2 * m ≤ n) (hsplit : SplitIneq cost m n) :
    let cps := (runPeltCode cost pen m n).2
    cps.Pairwise (fun a b => a + m ≤ b) ∧ ∀ c ∈ cps, m ≤ c ∧ c + m ≤ n :=
  peltG_changepoints_wellformed argminL prStrict soundPick_argminL soundPrune_strict cost pen m (m - 1) n
    hm (by omega) hn hsplit

/-! ### CAPA / MVCAPA -/

/-- what `ValidAnoms` says elementwise -/
theorem validAnoms_elementwise (m M : Nat) : ∀ (l : List (Nat × Nat)) (lo hi : Nat),
    ValidAnoms m M lo l hi →
      l.Pairwise (fun a b => a.2 ≤ b.1) ∧
      ∀ a ∈ l, lo ≤ a.1 ∧ a.2 ≤ hi ∧ (a.2 = a.1 + 1 ∨ (a.1 + m ≤ a.2 ∧ a.2 ≤ a.1 + M))
  | [], _, _, _ => by simp
  | a :: rest, lo, hi, h => by
    obtain ⟨h1, h2, h3⟩ := h
    obtain ⟨ih1, ih2⟩ := validAnoms_elementwise m M rest a.2 hi h3
    have hhi := validAnoms_lo_le_hi m M a.2 rest hi h3
    refine ⟨List.pairwise_cons.2 ⟨fun b hb => (ih2 b hb).1, ih1⟩, ?_⟩
    intro x hx
    rcases List.mem_cons.1 hx with rfl | hx
    · refine ⟨h1, hhi, ?_⟩
      rcases h2 with h2 | h2
      · left; exact h2
      · right; exact h2
    · obtain ⟨g1, g2, g3⟩ := ih2 x hx
      have : lo ≤ x.1 := by
        have : a.1 ≤ a.2 := by rcases h2 with h2 | h2 <;> [omega; (have := h2.1; omega)]
        omega
      exact ⟨this, g2, g3⟩

/-- **C04, CAPA / MVCAPA**: anomalies are sorted, pairwise disjoint, non-empty intervals inside
    `[0, n]`; collective anomalies have length in `[m, M]`, point anomalies length 1. -/
theorem capaG_anomalies_wellformed {α : Type} [AddCommGroup α] [LinearOrder α]
    [IsOrderedAddMonoid α] (pick : (Nat → α) → List Nat → Nat) (pr : α → α → Bool)
    (hpick : SoundPickMax pick) (hpr : SoundPruneC pr)
    (PS : Nat → Nat → α) (PP : Nat → α) (K : α) (m M delay n : Nat)
    (hm : 2 ≤ m) (hmM : m ≤ M) (hd : m ≤ delay + 1) (H : PruneIneq PS K m M n) :
    let an := (runCapaG pick pr PS PP K m M delay n).2
    an.Pairwise (fun a b => a.2 ≤ b.1) ∧
    ∀ a ∈ an, a.2 ≤ n ∧ a.1 < a.2 ∧ (a.2 = a.1 + 1 ∨ (a.1 + m ≤ a.2 ∧ a.2 ≤ a.1 + M)) := by
  intro an
  have h := (capaG_optimal pick pr hpick hpr PS PP K m M delay n hm hmM hd H).1
  obtain ⟨h1, h2⟩ := validAnoms_elementwise m M an 0 n h
  refine ⟨h1, ?_⟩
  intro a ha
  obtain ⟨_, g2, g3⟩ := h2 a ha
  refine ⟨g2, ?_, g3⟩
  rcases g3 with g3 | g3 <;> omega

/-- the code's policy (first maximiser, strict pruning test) -/
theorem capa_anomalies_wellformed {α : Type} [AddCommGroup α] [LinearOrder α]
    [IsOrderedAddMonoid α] (PS : Nat → Nat → α) (PP : Nat → α) (K : α) (m M delay n : Nat)
    (hm : 2 ≤ m) (hmM : m ≤ M) (hd : m ≤ delay + 1) (H : PruneIneq PS K m M n) :
    let an := (runCapa PS PP K m M delay n).2
    an.Pairwise (fun a b => a.2 ≤ b.1) ∧
    ∀ a ∈ an, a.2 ≤ n ∧ a.1 < a.2 ∧ (a.2 = a.1 + 1 ∨ (a.1 + m ≤ a.2 ∧ a.2 ≤ a.1 + M)) :=
  capaG_anomalies_wellformed argmaxL prLt soundPickMax_argmaxL soundPruneC_lt PS PP K m M delay n hm hmM hd H

/-! ### Seeded binary segmentation -/

/-- **C04, seeded binary segmentation**: a changepoint that maximises an interval inside `[0,n]`
    lies in `[m, n-m]`; two picked changepoints are at least `m` apart (`sbs_min_gap`, C07). -/
theorem sbs_changepoint_in_range {α : Type} [LinearOrder α] [Zero α]
    (cs : Nat → Nat → Nat → α) (m n : Nat) (iv : Nat × Nat) (k : Nat) (v : α)
    (hiv : iv.2 ≤ n) (h : amoc cs m iv = some (k, v)) : m ≤ k ∧ k + m ≤ n := by
  obtain ⟨h1, h2, _, _⟩ := (amoc_spec cs m iv).2 k v h
  omega

/-! ### Circular binary segmentation -/

/-- **C04, circular binary segmentation**: every admissible inner interval has length `≥ m` and
    lies strictly inside the data; reported anomalies are pairwise disjoint (`cbs_greedy`, C09). -/
theorem cbs_anomaly_strictly_inside (s e m n i j : Nat) (he : e ≤ n)
    (h : (i, j) ∈ anomalyIntervals s e m) : 0 < i ∧ j < n ∧ i + m ≤ j := by
  have := (mem_anomalyIntervals s e m i j).1 h
  omega

/-! ### Moving window -/

/-- **C04, moving window**: a position whose score exceeds a threshold `≥ 0` lies in
    `[bandwidth, n - bandwidth]` (scores are 0 elsewhere), hence so does every changepoint, which
    is a position of such a run. -/
theorem mw_above_threshold_in_band {α : Type} [LinearOrder α] [Zero α]
    (cs : Nat → Nat → Nat → α) (n b t : Nat) (thr : α) (hthr : 0 ≤ thr)
    (h : thr < mwScores cs n b 0 t) : b ≤ t ∧ t + b ≤ n := by
  by_contra hc
  simp only [mwScores, hc, if_false] at h
  exact absurd h (not_lt.2 hthr)

end Skc
