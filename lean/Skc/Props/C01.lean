import Skc.Lemmas.Kernels

/-! # C01 — cost values equal their definition on every admissible interval

Closed forms (`Skc.CF.*`, `Skc/Spec/Kernels.lean`) evaluated on the prefix sums of arbitrary data
equal the direct definitions computed from the rows `[s, e)`.  The definitions regenerated from
`/repo` by the translator are proved equal to these closed forms in `Skc/L1/L2Cost.lean` and
`Skc/L1/Gauss.lean` (obligations of this property too), which also restate the theorems below
directly about the generated code.  All statements: every data column `x : ℕ → ℝ`, every
`s < e` — no bound on sizes.  Floating-point rounding is outside the statement (theorems over ℝ);
the multivariate Gaussian cost is computed by the code directly from the rows (no prefix-sum
identity to verify) and is tied numerically only. -/
open Finset
namespace Skc

/-- **C01, squared error, optimal mean**: residual sum of squares around the segment mean -/
theorem l2_optim_is_rss (x : ℕ → ℝ) (s e : ℕ) (h : s < e) :
    CF.l2Optim (psum x e - psum x s) (psum (fun i => x i ^ 2) e - psum (fun i => x i ^ 2) s)
      ((e : ℝ) - s) = rss x (segMean x s e) s e :=
  l2Optim_direct x s e h

/-- **C01, squared error, fixed mean** -/
theorem l2_fixed_is_rss (x : ℕ → ℝ) (μ : ℝ) (s e : ℕ) (h : s ≤ e) :
    CF.l2Fixed (psum x e - psum x s) (psum (fun i => x i ^ 2) e - psum (fun i => x i ^ 2) s)
      ((e : ℝ) - s) μ = rss x μ s e :=
  l2Fixed_direct x μ s e h

/-- **C01, univariate Gaussian, optimal parameters**: `n log(2π σ̂²) + n` with the population
    variance `σ̂²` of the rows floored at 1e-16 -/
theorem gauss_optim_is_loglik (x : ℕ → ℝ) (s e : ℕ) (h : s < e) :
    CF.gaussOptim (psum x e - psum x s) (psum (fun i => x i ^ 2) e - psum (fun i => x i ^ 2) s)
      ((e : ℝ) - s) =
      ((e : ℝ) - s) * Real.log (2 * Real.pi *
        max (rss x (segMean x s e) s e / ((e : ℝ) - s)) varFloorConst) + ((e : ℝ) - s) := by
  simp only [CF.gaussOptim]
  rw [varFloor_direct x s e h]

/-- **C01, univariate Gaussian, fixed parameters**: `n log(2π v) + Σ (x_i − μ)² / v` -/
theorem gauss_fixed_is_loglik (x : ℕ → ℝ) (μ v : ℝ) (s e : ℕ) (h : s ≤ e) :
    CF.gaussFixed (psum x e - psum x s) (psum (fun i => x i ^ 2) e - psum (fun i => x i ^ 2) s)
      ((e : ℝ) - s) μ v = ((e : ℝ) - s) * Real.log (2 * Real.pi * v) + rss x μ s e / v := by
  simp only [CF.gaussFixed]
  rw [l2Fixed_direct x μ s e h]

/-- the floor constant is the documented 1e-16 -/
theorem varFloor_is_1e16 : varFloorConst = 1 / 10 ^ 16 := by
  unfold varFloorConst; norm_num

/-- **C01, batch and order independence**: `evaluate` maps a per-interval function over the rows
    of `cuts`; the row returned for an interval depends on that interval only. -/
theorem evaluate_row_independent {γ : Type} (f : Nat × Nat → γ) (cuts : List (Nat × Nat))
    (i : Nat) (c : Nat × Nat) (h : cuts[i]? = some c) : (cuts.map f)[i]? = some (f c) := by
  simp [h]

/-- non-vacuity: the data 1,2,4,7,3 on [1,4) has RSS 38/3 -/
example : CF.l2Optim 13 69 3 = 38 / 3 := by simp only [CF.l2Optim]; norm_num

end Skc
