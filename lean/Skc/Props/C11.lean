import Skc.Model.Frame
import Mathlib.Data.List.Basic

/-! # C11 — outputs do not depend on how the same numbers are passed in  *(partial)*

Model: `Skc/Model/Frame.lean`.  The theorems are parametricity statements about the conversion
logic: detection is a function of the value matrix, which does not depend on index labels, column
labels or the container; dense outputs carry the input's own index and their values do not depend
on the labels.  pandas and NumPy themselves are not modelled — this property is decided mainly by
the differential run over containers / dtypes / indexes / entry points in the harness. -/
namespace Skc
variable {ι κ ι' κ' ο : Type}

/-- relabelling index and columns does not change the values detection sees -/
theorem values_relabel (f : ι → ι') (g : κ → κ') (x : Input ι κ) :
    (x.relabel f g).values = x.values := by
  cases x <;> rfl

/-- **C11**: integer locations, labels and scores are the same whatever index and column labels
    the input carries -/
theorem sparse_relabel_invariant (detect : List (List Rat) → ο) (f : ι → ι') (g : κ → κ')
    (x : Input ι κ) : detectSparse detect (x.relabel f g) = detectSparse detect x := by
  unfold detectSparse; rw [values_relabel]

/-- **C11**: a univariate column gives the same result as array, 1-D array, Series or DataFrame -/
theorem container_invariant (detect : List (List Rat) → ο) (idx : List ι) (c : κ)
    (col : List Rat) :
    detectSparse detect (.array1d col : Input ι κ) =
      detectSparse detect (.series idx col : Input ι κ) ∧
    detectSparse detect (.series idx col : Input ι κ) =
      detectSparse detect (.frame idx [c] (col.map (fun x => [x])) : Input ι κ) ∧
    detectSparse detect (.frame idx [c] (col.map (fun x => [x])) : Input ι κ) =
      detectSparse detect (.array2d (col.map (fun x => [x])) : Input ι κ) := by
  refine ⟨rfl, rfl, rfl⟩

/-- **C11**: dense outputs carry the input's own index (relabelled inputs give relabelled
    indexes) and the same label values -/
theorem dense_relabel (dense : List (List Rat) → List Nat) (f : ι → ι') (g : κ → κ')
    (x : Input ι κ) :
    (detectDense dense (x.relabel f g)).map (·.2) = (detectDense dense x).map (·.2) ∧
    (x.relabel f g).index = x.index.map (Sum.map f id) := by
  constructor
  · unfold detectDense
    rw [values_relabel]
    have hlen : (x.relabel f g).index.length = x.index.length := by
      cases x <;> simp [Input.relabel, Input.index]
    -- second components of a zip depend only on the lengths
    have key : ∀ (a : List (ι' ⊕ Nat)) (b : List (ι ⊕ Nat)) (l : List Nat), a.length = b.length →
        (a.zip l).map (·.2) = (b.zip l).map (·.2) := by
      intro a b l h
      induction l generalizing a b with
      | nil => simp
      | cons y t ih =>
        cases a with
        | nil => cases b with
          | nil => simp
          | cons _ _ => simp at h
        | cons _ a' => cases b with
          | nil => simp at h
          | cons _ b' => simp only [List.zip_cons_cons, List.map_cons]; rw [ih a' b' (by simpa using h)]
    exact key _ _ _ hlen
  · cases x <;> simp [Input.relabel, Input.index, List.map_map, Function.comp_def]

end Skc
