import Skc.Lemmas.CapaSpec
import Skc.Lemmas.PenH
import Skc.Lemmas.CapaGlue
import Skc.Lemmas.Tables
import Skc.Lemmas.CapaOn
import Skc.Lemmas.GaussCovIneq
import Mathlib.Tactic.IntervalCases

/-! # C03 — CAPA / MVCAPA anomalies maximise the total penalised saving

Models: `Skc.runCapa` (`Skc/Model/Capa.lean`: `run_base_capa` + `get_anomalies`, abstract in the
penalised savings `PS s e`, `PP t` and the pruning slack `K = alpha + Σ betas`) and `Skc.penalise`
(`Skc/Model/Pen.lean`: the three branches of `penalise_savings`).  The driver composes them exactly
as `run_base_capa` does; the correspondence check ties the composition to `CAPA` and `MVCAPA`.

All theorems: every totally ordered additive group, every `n`, `2 ≤ m ≤ M`, pruning delay `≥ m-1`. -/
namespace Skc
set_option linter.unusedSectionVars false
variable {α : Type} [AddCommGroup α] [LinearOrder α] [IsOrderedAddMonoid α]

/-- the one fact about the penalised savings that pruning relies on -/
def PruneIneq (PS : Nat → Nat → α) (K : α) (m M n : Nat) : Prop :=
  ∀ s e0 T, s + m ≤ e0 → e0 + m ≤ T → T ≤ s + M → T ≤ n → PS s T ≤ PS s e0 + PS e0 T + K

/-- **C03 (DP exactness)**: the reported anomalies are an admissible set (sorted, disjoint,
    collective lengths in `[m, M]`, point anomalies of length 1) whose total penalised saving is the
    final score, and no admissible set saves more. -/
theorem capaG_optimal (pick : (Nat → α) → List Nat → Nat) (pr : α → α → Bool)
    (hpick : SoundPickMax pick) (hpr : SoundPruneC pr) (PS : Nat → Nat → α) (PP : Nat → α) (K : α) (m M delay n : Nat)
    (hm : 2 ≤ m) (hmM : m ≤ M) (hd : m ≤ delay + 1) (H : PruneIneq PS K m M n) :
    let r := runCapaG pick pr PS PP K m M delay n
    ValidAnoms m M 0 r.2 n ∧ anomVal PS PP r.2 = r.1 n ∧
      ∀ l, ValidAnoms m M 0 l n → anomVal PS PP l ≤ r.1 n := by
  intro r
  have inv := cinv_allG pick pr hpick hpr PS PP K m M delay n (by omega) hmM hd H n (le_refl _)
  obtain ⟨l, hl1, hl2, hl3, _⟩ :=
    getAnoms_spec PS PP K m M delay n _ hm inv n (le_refl _) (n + 1) [] (by omega)
  have hr2 : r.2 = l := by simp only [r, runCapaG, hl1]; simp
  refine ⟨hr2 ▸ hl2, hr2 ▸ hl3, ?_⟩
  intro l' hl'
  have := anomVal_le PS PP K m M delay n _ hm inv l' 0 n (le_refl _) hl'
  rw [inv.opt0, zero_add] at this
  exact this

/-- **C03 (scores)**: every reported cumulative score is the optimum of its prefix; scores are
    `≥ 0` and non-decreasing. -/
theorem capaG_prefix (pick : (Nat → α) → List Nat → Nat) (pr : α → α → Bool)
    (hpick : SoundPickMax pick) (hpr : SoundPruneC pr) (PS : Nat → Nat → α) (PP : Nat → α) (K : α) (m M delay n : Nat)
    (hm : 2 ≤ m) (hmM : m ≤ M) (hd : m ≤ delay + 1) (H : PruneIneq PS K m M n)
    (e : Nat) (he : e ≤ n) :
    let opt := (runCapaG pick pr PS PP K m M delay n).1
    (∃ l, ValidAnoms m M 0 l e ∧ anomVal PS PP l = opt e) ∧
      (∀ l, ValidAnoms m M 0 l e → anomVal PS PP l ≤ opt e) ∧
      0 ≤ opt e ∧ (∀ e', e' ≤ e → opt e' ≤ opt e) := by
  intro opt
  have inv := cinv_allG pick pr hpick hpr PS PP K m M delay n (by omega) hmM hd H n (le_refl _)
  obtain ⟨l, _, hl2, hl3, _⟩ :=
    getAnoms_spec PS PP K m M delay n _ hm inv e he (e + 1) [] (by omega)
  refine ⟨⟨l, hl2, hl3⟩, ?_, ?_, ?_⟩
  · intro l' hl'
    have := anomVal_le PS PP K m M delay n _ hm inv l' 0 e he hl'
    rw [inv.opt0, zero_add] at this
    exact this
  · have := opt_mono PS PP K m M delay n _ inv 0 e (by omega) he
    rw [inv.opt0] at this
    exact this
  · intro e' he'
    exact opt_mono PS PP K m M delay n _ inv e' e he' he

/-- every reported anomaly has a strictly positive penalised saving ("no anomaly" wins ties) -/
theorem capaG_reported_positive (pick : (Nat → α) → List Nat → Nat) (pr : α → α → Bool)
    (hpick : SoundPickMax pick) (hpr : SoundPruneC pr) (PS : Nat → Nat → α) (PP : Nat → α) (K : α) (m M delay n : Nat)
    (hm : 2 ≤ m) (hmM : m ≤ M) (hd : m ≤ delay + 1) (H : PruneIneq PS K m M n) :
    ∀ a ∈ (runCapaG pick pr PS PP K m M delay n).2, 0 < anomVal1 PS PP a := by
  have inv := cinv_allG pick pr hpick hpr PS PP K m M delay n (by omega) hmM hd H n (le_refl _)
  obtain ⟨l, hl1, _, _, hl4⟩ :=
    getAnoms_spec PS PP K m M delay n _ hm inv n (le_refl _) (n + 1) [] (by omega)
  have hr2 : (runCapaG pick pr PS PP K m M delay n).2 = l := by simp only [runCapaG, hl1]; simp
  rw [hr2]; exact hl4

/-- C03 for the instance that mirrors `run_base_capa` (first maximiser, strict pruning test) -/
theorem capa_optimal (PS : Nat → Nat → α) (PP : Nat → α) (K : α) (m M delay n : Nat)
    (hm : 2 ≤ m) (hmM : m ≤ M) (hd : m ≤ delay + 1) (H : PruneIneq PS K m M n) :
    let r := runCapa PS PP K m M delay n
    ValidAnoms m M 0 r.2 n ∧ anomVal PS PP r.2 = r.1 n ∧
      ∀ l, ValidAnoms m M 0 l n → anomVal PS PP l ≤ r.1 n :=
  capaG_optimal argmaxL prLt soundPickMax_argmaxL soundPruneC_lt PS PP K m M delay n hm hmM hd H

theorem capa_prefix (PS : Nat → Nat → α) (PP : Nat → α) (K : α) (m M delay n : Nat)
    (hm : 2 ≤ m) (hmM : m ≤ M) (hd : m ≤ delay + 1) (H : PruneIneq PS K m M n)
    (e : Nat) (he : e ≤ n) :
    let opt := (runCapa PS PP K m M delay n).1
    (∃ l, ValidAnoms m M 0 l e ∧ anomVal PS PP l = opt e) ∧
      (∀ l, ValidAnoms m M 0 l e → anomVal PS PP l ≤ opt e) ∧
      0 ≤ opt e ∧ (∀ e', e' ≤ e → opt e' ≤ opt e) :=
  capaG_prefix argmaxL prLt soundPickMax_argmaxL soundPruneC_lt PS PP K m M delay n hm hmM hd H e he

theorem capa_reported_positive (PS : Nat → Nat → α) (PP : Nat → α) (K : α) (m M delay n : Nat)
    (hm : 2 ≤ m) (hmM : m ≤ M) (hd : m ≤ delay + 1) (H : PruneIneq PS K m M n) :
    ∀ a ∈ (runCapa PS PP K m M delay n).2, 0 < anomVal1 PS PP a :=
  capaG_reported_positive argmaxL prLt soundPickMax_argmaxL soundPruneC_lt PS PP K m M delay n
    hm hmM hd H

/-- **C03 (ignore_point_anomalies)**: the model's output with the flag set is the back-tracked list
    filtered by "length ≠ 1"; what is omitted is exactly the point anomalies, and every collective
    anomaly is kept (`m ≥ 2` makes "length 1" and "point" coincide). -/
theorem capa_ignore_points (l : List (Nat × Nat)) (a : Nat × Nat) :
    a ∈ l.filter (fun a => decide (a.2 ≠ a.1 + 1)) ↔ a ∈ l ∧ a.2 ≠ a.1 + 1 := by
  simp [List.mem_filter]

/-! ### The penalised saving of one candidate (`penalise_savings`) -/

/-- **C03 (i), general branch**: the value is that of the `k+1` largest savings for the best `k`,
    and it dominates every non-empty selection `J` of components (`|J|` betas and `alpha` once). -/
theorem penalise_general_best (sav : List α) (alpha : α) (betas : List α)
    (hlen : betas.length = sav.length) (hp : sav ≠ []) :
    let r := penGeneral sav alpha betas
    r.1 < sav.length ∧ r.2 = prefVal sav alpha betas r.1 ∧
      ∀ J : List α, J.Subperm sav → J ≠ [] →
        J.sum - (betas.take J.length).sum - alpha ≤ r.2 := by
  intro r
  obtain ⟨h1, h2, _⟩ := penGeneral_spec sav alpha betas hlen hp
  exact ⟨h1, h2, fun J hJ hne => penGeneral_ge_subset sav alpha betas hlen J hJ hne⟩

/-- pruning inequality, general branch -/
theorem penalise_general_H (x y z : List α) (alpha : α) (betas : List α)
    (h : SubAdd x y z) (hlen : betas.length = x.length) (hp : x ≠ [])
    (hb : ∀ v ∈ betas, 0 ≤ v) :
    (penGeneral x alpha betas).2 ≤
      (penGeneral y alpha betas).2 + (penGeneral z alpha betas).2 + (alpha + betas.sum) :=
  penGeneral_H x y z alpha betas h hlen hp hb

/-- pruning inequality, dense branch (`Σ − alpha`) -/
theorem penalise_dense_H (x y z : List α) (alpha : α) (betas : List α)
    (h : SubAdd x y z) (hb : 0 ≤ betas.sum) :
    x.sum - alpha ≤ (y.sum - alpha) + (z.sum - alpha) + (alpha + betas.sum) := by
  have := subAdd_sum x y z h
  grind

/-- pruning inequality, equal-betas branch (`Σ max(s − β, 0) − alpha`, slack `alpha + p·β`) -/
theorem penalise_equal_H (x y z : List α) (alpha b : α) (h : SubAdd x y z) (hb : 0 ≤ b) :
    (x.map (pos b)).sum - alpha ≤
      ((y.map (pos b)).sum - alpha) + ((z.map (pos b)).sum - alpha)
        + (alpha + (x.map (fun _ => b)).sum) := by
  have := subAdd_pos_sum b hb x y z h
  grind

/-! ### The composition the code executes, against the specification -/

/-- **C03, full statement at model level.**  Let the collective / point savings of every interval be
    vectors of `p ≥ 1` non-negative column savings, sub-additive under splitting column by column,
    and let both `(alpha, betas)` pairs satisfy `PenOK` (non-negative terms; betas not in
    `(0, 1e-8)`).  Let `PSs`, `PPs` be the *specification's* penalised savings: for every interval the
    best, over non-empty sets of components, of the summed savings minus `alpha` (once) minus the
    betas of that many components (`IsBestSel`).  Then the model of `run_base_capa` driven by the
    code's `penalise_savings` (three branches) returns an admissible anomaly set whose total
    *specification* saving equals the reported final score, and no admissible set has a larger
    total specification saving.  (The equal-betas branch over-estimates candidates whose true value
    is below `-alpha`; such candidates are never selected because "no anomaly" wins ties.) -/
theorem capa_optimal_wrt_specification (pick : (Nat → α) → List Nat → Nat) (pr : α → α → Bool)
    (hpick : SoundPickMax pick) (hpr : SoundPruneC pr) (eps : α) (csav : Nat → Nat → List α) (psav : Nat → List α)
    (ca pa : α) (cb pb : List α) (p m M delay n : Nat)
    (hm : 2 ≤ m) (hmM : m ≤ M) (hd : m ≤ delay + 1) (hp : 0 < p)
    (hclen : ∀ s e, (csav s e).length = p) (hplen : ∀ t, (psav t).length = p)
    (hcnn : ∀ s e, ∀ v ∈ csav s e, 0 ≤ v) (hpnn : ∀ t, ∀ v ∈ psav t, 0 ≤ v)
    (hsub : ∀ s e0 T, s + m ≤ e0 → e0 + m ≤ T → T ≤ s + M → T ≤ n →
      SubAdd (csav s T) (csav s e0) (csav e0 T))
    (okc : PenOK eps p ca cb) (okp : PenOK eps p pa pb)
    (PSs : Nat → Nat → α) (PPs : Nat → α)
    (hPSs : ∀ s e, IsBestSel (csav s e) ca cb (PSs s e))
    (hPPs : ∀ t, IsBestSel (psav t) pa pb (PPs t)) :
    let PS := fun s e => penalise eps (csav s e) ca cb
    let PP := fun t => penalise eps (psav t) pa pb
    let r := runCapaG pick pr PS PP (ca + sumL cb) m M delay n
    ValidAnoms m M 0 r.2 n ∧ anomVal PSs PPs r.2 = r.1 n ∧
      ∀ l, ValidAnoms m M 0 l n → anomVal PSs PPs l ≤ r.1 n := by
  intro PS PP r
  have hne_c : ∀ s e, csav s e ≠ [] := fun s e h => by
    have := hclen s e; rw [h] at this; simp at this; omega
  have hne_p : ∀ t, psav t ≠ [] := fun t h => by
    have := hplen t; rw [h] at this; simp at this; omega
  have okc' : ∀ s e, PenOK eps (csav s e).length ca cb := fun s e => by rw [hclen]; exact okc
  have okp' : ∀ t, PenOK eps (psav t).length pa pb := fun t => by rw [hplen]; exact okp
  -- the pruning inequality for the code's penalised saving
  have H : PruneIneq PS (ca + sumL cb) m M n := by
    intro s e0 T h1 h2 h3 h4
    exact penalise_H eps _ _ _ ca cb (hne_c s T) (hsub s e0 T h1 h2 h3 h4) (okc' s T)
  obtain ⟨hvalid, hval, hub⟩ :=
    capaG_optimal pick pr hpick hpr PS PP (ca + sumL cb) m M delay n hm hmM hd H
  have hposr :=
    capaG_reported_positive pick pr hpick hpr PS PP (ca + sumL cb) m M delay n hm hmM hd H
  -- the specification never exceeds the code's value
  have hle1 : ∀ s e, PSs s e ≤ PS s e := by
    intro s e
    obtain ⟨⟨J, hJ1, hJ2, hJ3⟩, _⟩ := hPSs s e
    rw [← hJ3]
    exact penalise_ge eps _ ca cb (hne_c s e) (hcnn s e) (okc' s e) J hJ1 hJ2
  have hle2 : ∀ t, PPs t ≤ PP t := by
    intro t
    obtain ⟨⟨J, hJ1, hJ2, hJ3⟩, _⟩ := hPPs t
    rw [← hJ3]
    exact penalise_ge eps _ pa pb (hne_p t) (hpnn t) (okp' t) J hJ1 hJ2
  refine ⟨hvalid, ?_, ?_⟩
  · -- on the reported anomalies (strictly positive) code and specification coincide
    rw [← hval]
    apply anomVal_congr
    intro a ha
    have hpos := hposr a ha
    simp only [anomVal1] at hpos ⊢
    split
    · rename_i hpt
      simp only [hpt, if_true] at hpos
      have hb := penalise_best_of_pos eps _ pa pb (hne_p a.1) (hpnn a.1) (okp' a.1) hpos
      exact isBestSel_unique _ _ _ _ _ (hPPs a.1) hb
    · rename_i hpt
      simp only [hpt, if_false] at hpos
      have hb := penalise_best_of_pos eps _ ca cb (hne_c a.1 a.2) (hcnn a.1 a.2) (okc' a.1 a.2) hpos
      exact isBestSel_unique _ _ _ _ _ (hPSs a.1 a.2) hb
  · intro l hl
    exact le_trans (anomVal_mono PSs PS PPs PP hle1 hle2 l) (hub l hl)

/-- **C03, scores against the specification**: under the same hypotheses every reported cumulative
    score is the maximum total *specification* saving over the admissible anomaly sets of that
    prefix (attained and an upper bound), hence non-negative and non-decreasing. -/
theorem capa_prefix_wrt_specification (pick : (Nat → α) → List Nat → Nat) (pr : α → α → Bool)
    (hpick : SoundPickMax pick) (hpr : SoundPruneC pr) (eps : α) (csav : Nat → Nat → List α) (psav : Nat → List α)
    (ca pa : α) (cb pb : List α) (p m M delay n : Nat)
    (hm : 2 ≤ m) (hmM : m ≤ M) (hd : m ≤ delay + 1) (hp : 0 < p)
    (hclen : ∀ s e, (csav s e).length = p) (hplen : ∀ t, (psav t).length = p)
    (hcnn : ∀ s e, ∀ v ∈ csav s e, 0 ≤ v) (hpnn : ∀ t, ∀ v ∈ psav t, 0 ≤ v)
    (hsub : ∀ s e0 T, s + m ≤ e0 → e0 + m ≤ T → T ≤ s + M → T ≤ n →
      SubAdd (csav s T) (csav s e0) (csav e0 T))
    (okc : PenOK eps p ca cb) (okp : PenOK eps p pa pb)
    (PSs : Nat → Nat → α) (PPs : Nat → α)
    (hPSs : ∀ s e, IsBestSel (csav s e) ca cb (PSs s e))
    (hPPs : ∀ t, IsBestSel (psav t) pa pb (PPs t)) (e : Nat) (he : e ≤ n) :
    let PS := fun s e => penalise eps (csav s e) ca cb
    let PP := fun t => penalise eps (psav t) pa pb
    let opt := (runCapaG pick pr PS PP (ca + sumL cb) m M delay n).1
    (∃ l, ValidAnoms m M 0 l e ∧ anomVal PSs PPs l = opt e) ∧
      (∀ l, ValidAnoms m M 0 l e → anomVal PSs PPs l ≤ opt e) ∧
      0 ≤ opt e ∧ ∀ e', e' ≤ e → opt e' ≤ opt e := by
  intro PS PP opt
  have hne_c : ∀ s e, csav s e ≠ [] := fun s e h => by
    have := hclen s e; rw [h] at this; simp at this; omega
  have hne_p : ∀ t, psav t ≠ [] := fun t h => by
    have := hplen t; rw [h] at this; simp at this; omega
  have okc' : ∀ s e, PenOK eps (csav s e).length ca cb := fun s e => by rw [hclen]; exact okc
  have okp' : ∀ t, PenOK eps (psav t).length pa pb := fun t => by rw [hplen]; exact okp
  have H : PruneIneq PS (ca + sumL cb) m M n := by
    intro s e0 T h1 h2 h3 h4
    exact penalise_H eps _ _ _ ca cb (hne_c s T) (hsub s e0 T h1 h2 h3 h4) (okc' s T)
  have inv := cinv_allG pick pr hpick hpr PS PP (ca + sumL cb) m M delay n (by omega) hmM hd H n
    (le_refl _)
  obtain ⟨l, _, hl2, hl3, hl4⟩ :=
    getAnoms_spec PS PP (ca + sumL cb) m M delay n _ hm inv e he (e + 1) [] (by omega)
  obtain ⟨_, hub, h0, hmono⟩ :=
    capaG_prefix pick pr hpick hpr PS PP (ca + sumL cb) m M delay n hm hmM hd H e he
  have hle1 : ∀ s e, PSs s e ≤ PS s e := by
    intro s e
    obtain ⟨⟨J, hJ1, hJ2, hJ3⟩, _⟩ := hPSs s e
    rw [← hJ3]
    exact penalise_ge eps _ ca cb (hne_c s e) (hcnn s e) (okc' s e) J hJ1 hJ2
  have hle2 : ∀ t, PPs t ≤ PP t := by
    intro t
    obtain ⟨⟨J, hJ1, hJ2, hJ3⟩, _⟩ := hPPs t
    rw [← hJ3]
    exact penalise_ge eps _ pa pb (hne_p t) (hpnn t) (okp' t) J hJ1 hJ2
  refine ⟨⟨l, hl2, ?_⟩, ?_, h0, hmono⟩
  · show anomVal PSs PPs l = (runCapaG pick pr PS PP (ca + sumL cb) m M delay n).1 e
    have : (runCapaG pick pr PS PP (ca + sumL cb) m M delay n).1 e =
        (capaIterG pick pr PS PP (ca + sumL cb) m M delay n).opt e := rfl
    rw [this, ← hl3]
    apply anomVal_congr
    intro a ha
    have hpos := hl4 a ha
    simp only [anomVal1] at hpos ⊢
    split
    · rename_i hpt
      simp only [hpt, if_true] at hpos
      exact isBestSel_unique _ _ _ _ _ (hPPs a.1)
        (penalise_best_of_pos eps _ pa pb (hne_p a.1) (hpnn a.1) (okp' a.1) hpos)
    · rename_i hpt
      simp only [hpt, if_false] at hpos
      exact isBestSel_unique _ _ _ _ _ (hPSs a.1 a.2)
        (penalise_best_of_pos eps _ ca cb (hne_c a.1 a.2) (hcnn a.1 a.2) (okc' a.1 a.2) hpos)
  · intro l' hl'
    exact le_trans (anomVal_mono PSs PS PPs PP hle1 hle2 l') (hub l' hl')

/-! ### the same statement with hypotheses only on what CAPA reads -/

/-- **C03, hypotheses restricted to the intervals CAPA reads.**  As `capa_optimal_wrt_specification`, but
    the requirements on the savings (length `p`, non-negative, specification value) are asked only of
    collective candidates `[s, e)` with `m ≤ e - s ≤ M`, `e ≤ n` and of points `t < n` — the only
    intervals the recursion evaluates and the only ones an admissible anomaly set can contain.  This is
    the form needed for costs whose savings are well behaved on such intervals only (Gaussian costs above
    the variance floor). -/
theorem capa_optimal_wrt_specification_on (pick : (Nat → α) → List Nat → Nat) (pr : α → α → Bool)
    (hpick : SoundPickMax pick) (hpr : SoundPruneC pr) (eps : α) (csav : Nat → Nat → List α) (psav : Nat → List α)
    (ca pa : α) (cb pb : List α) (pc pp m M delay n : Nat)
    (hm : 2 ≤ m) (hmM : m ≤ M) (hd : m ≤ delay + 1) (hpc : 0 < pc) (hpp : 0 < pp)
    (hclen : ∀ s e, AdmC m M s e → e ≤ n → (csav s e).length = pc) (hplen : ∀ t, t < n → (psav t).length = pp)
    (hcnn : ∀ s e, AdmC m M s e → e ≤ n → ∀ v ∈ csav s e, 0 ≤ v) (hpnn : ∀ t, t < n → ∀ v ∈ psav t, 0 ≤ v)
    (hsub : ∀ s e0 T, s + m ≤ e0 → e0 + m ≤ T → T ≤ s + M → T ≤ n →
      SubAdd (csav s T) (csav s e0) (csav e0 T))
    (okc : PenOK eps pc ca cb) (okp : PenOK eps pp pa pb)
    (PSs : Nat → Nat → α) (PPs : Nat → α)
    (hPSs : ∀ s e, AdmC m M s e → e ≤ n → IsBestSel (csav s e) ca cb (PSs s e))
    (hPPs : ∀ t, t < n → IsBestSel (psav t) pa pb (PPs t)) :
    let PS := fun s e => penalise eps (csav s e) ca cb
    let PP := fun t => penalise eps (psav t) pa pb
    let r := runCapaG pick pr PS PP (ca + sumL cb) m M delay n
    ValidAnoms m M 0 r.2 n ∧ anomVal PSs PPs r.2 = r.1 n ∧
      ∀ l, ValidAnoms m M 0 l n → anomVal PSs PPs l ≤ r.1 n := by
  intro PS PP r
  have hne_c : ∀ s e, AdmC m M s e → e ≤ n → csav s e ≠ [] := fun s e h1 h2 h => by
    have := hclen s e h1 h2; rw [h] at this; simp at this; omega
  have hne_p : ∀ t, t < n → psav t ≠ [] := fun t ht h => by
    have := hplen t ht; rw [h] at this; simp at this; omega
  have okc' : ∀ s e, AdmC m M s e → e ≤ n → PenOK eps (csav s e).length ca cb :=
    fun s e h1 h2 => by rw [hclen s e h1 h2]; exact okc
  have okp' : ∀ t, t < n → PenOK eps (psav t).length pa pb := fun t ht => by rw [hplen t ht]; exact okp
  have H : PruneIneq PS (ca + sumL cb) m M n := by
    intro s e0 T h1 h2 h3 h4
    have hadm : AdmC m M s T := ⟨by omega, h3⟩
    exact penalise_H eps _ _ _ ca cb (hne_c s T hadm h4) (hsub s e0 T h1 h2 h3 h4) (okc' s T hadm h4)
  obtain ⟨hvalid, hval, hub⟩ :=
    capaG_optimal pick pr hpick hpr PS PP (ca + sumL cb) m M delay n hm hmM hd H
  have hposr :=
    capaG_reported_positive pick pr hpick hpr PS PP (ca + sumL cb) m M delay n hm hmM hd H
  have hle1 : ∀ s e, AdmC m M s e → e ≤ n → PSs s e ≤ PS s e := by
    intro s e h1 h2
    obtain ⟨⟨J, hJ1, hJ2, hJ3⟩, _⟩ := hPSs s e h1 h2
    rw [← hJ3]
    exact penalise_ge eps _ ca cb (hne_c s e h1 h2) (hcnn s e h1 h2) (okc' s e h1 h2) J hJ1 hJ2
  have hle2 : ∀ t, t < n → PPs t ≤ PP t := by
    intro t ht
    obtain ⟨⟨J, hJ1, hJ2, hJ3⟩, _⟩ := hPPs t ht
    rw [← hJ3]
    exact penalise_ge eps _ pa pb (hne_p t ht) (hpnn t ht) (okp' t ht) J hJ1 hJ2
  refine ⟨hvalid, ?_, ?_⟩
  · rw [← hval]
    apply anomVal_congr
    intro a ha
    have hpos := hposr a ha
    have hmem := validAnoms_mem m M (by omega) _ 0 n hvalid a ha
    simp only [anomVal1] at hpos ⊢
    split
    · rename_i hpt
      simp only [hpt, if_true] at hpos
      have ht : a.1 < n := by have := hmem.2; omega
      have hb := penalise_best_of_pos eps _ pa pb (hne_p a.1 ht) (hpnn a.1 ht) (okp' a.1 ht) hpos
      exact isBestSel_unique _ _ _ _ _ (hPPs a.1 ht) hb
    · rename_i hpt
      simp only [hpt, if_false] at hpos
      have hadm : AdmC m M a.1 a.2 := by
        rcases hmem.1 with g | g
        · exact absurd g hpt
        · exact g
      have hb := penalise_best_of_pos eps _ ca cb (hne_c a.1 a.2 hadm hmem.2) (hcnn a.1 a.2 hadm hmem.2)
        (okc' a.1 a.2 hadm hmem.2) hpos
      exact isBestSel_unique _ _ _ _ _ (hPSs a.1 a.2 hadm hmem.2) hb
  · intro l hl
    exact le_trans (anomVal_mono_valid PSs PS PPs PP m M n (by omega) hle1 hle2 l 0 hl) (hub l hl)

/-! ### composed down to the data: CAPA / MVCAPA with the squared-error saving -/

/-- **C03, squared-error saving, from the rows.**  For a series with `p ≥ 1` columns and the default
    `L2Saving` (per-column saving `(Σ x)² / len`, `l2Savings`), every hypothesis of
    `capa_optimal_wrt_specification` about the savings is a theorem — lengths, non-negativity
    (`l2Savings_nonneg`), column-wise sub-additivity under splitting (`l2Savings_subAdd`) — so for all
    data, all `PenOK` penalties and every policy of the family the reported anomalies are an admissible
    set whose total specification saving is the final score, and no admissible set saves more. -/
theorem capa_l2_optimal_wrt_specification (pick : (Nat → ℝ) → List Nat → Nat) (pr : ℝ → ℝ → Bool)
    (hpick : SoundPickMax pick) (hpr : SoundPruneC pr) (eps : ℝ) (X : ℕ → ℕ → ℝ)
    (ca pa : ℝ) (cb pb : List ℝ) (p m M delay n : Nat)
    (hm : 2 ≤ m) (hmM : m ≤ M) (hd : m ≤ delay + 1) (hp : 0 < p)
    (okc : PenOK eps p ca cb) (okp : PenOK eps p pa pb)
    (PSs : Nat → Nat → ℝ) (PPs : Nat → ℝ)
    (hPSs : ∀ s e, IsBestSel (l2Savings X p s e) ca cb (PSs s e))
    (hPPs : ∀ t, IsBestSel (l2Savings X p t (t + 1)) pa pb (PPs t)) :
    let PS := fun s e => penalise eps (l2Savings X p s e) ca cb
    let PP := fun t => penalise eps (l2Savings X p t (t + 1)) pa pb
    let r := runCapaG pick pr PS PP (ca + sumL cb) m M delay n
    ValidAnoms m M 0 r.2 n ∧ anomVal PSs PPs r.2 = r.1 n ∧
      ∀ l, ValidAnoms m M 0 l n → anomVal PSs PPs l ≤ r.1 n :=
  capa_optimal_wrt_specification pick pr hpick hpr eps (fun s e => l2Savings X p s e)
    (fun t => l2Savings X p t (t + 1)) ca pa cb pb p m M delay n hm hmM hd hp
    (fun s e => l2Savings_length X p s e) (fun t => l2Savings_length X p t (t + 1))
    (fun s e => l2Savings_nonneg X p s e) (fun t => l2Savings_nonneg X p t (t + 1))
    (fun s e0 T h1 h2 _ _ => l2Savings_subAdd X p s e0 T (by omega) (by omega))
    okc okp PSs PPs hPSs hPPs

/-- **C03, Gaussian savings, from the rows.**  CAPA / MVCAPA with the per-column Gaussian saving
    (`Saving(GaussianVarCost(param=(μ, v)))`: fixed-parameter cost minus optimal cost, both from prefix
    sums, `gaussSavings`) for collective anomalies and the default squared-error saving for points.
    If the baseline variances are positive and every interval of at least `m` rows inside `[0, n]` has,
    in every column, an empirical variance at or above the floor `1e-16` (at the floor itself the claim
    is excluded by the property), then all hypotheses about the savings are theorems: non-negativity
    (`gaussTable_le_fixed`), column-wise sub-additivity under splitting (`gaussSavings_subAdd`: the
    fixed-parameter cost is additive, the optimal cost obeys the split inequality).  Hence for all such
    data, all `PenOK` penalties and every policy of the family the reported anomalies are an admissible
    set whose total specification saving is the final score, and no admissible set saves more. -/
theorem capa_gauss_optimal_wrt_specification (pick : (Nat → ℝ) → List Nat → Nat) (pr : ℝ → ℝ → Bool)
    (hpick : SoundPickMax pick) (hpr : SoundPruneC pr) (eps : ℝ) (X : ℕ → ℕ → ℝ) (μ v : ℕ → ℝ)
    (ca pa : ℝ) (cb pb : List ℝ) (p m M delay n : Nat)
    (hm : 2 ≤ m) (hmM : m ≤ M) (hd : m ≤ delay + 1) (hp : 0 < p)
    (hv : ∀ j, j < p → 0 < v j)
    (habove : ∀ j, j < p → ∀ a b, a + m ≤ b → b ≤ n → varFloorConst ≤ segVar (X j) a b)
    (okc : PenOK eps p ca cb) (okp : PenOK eps p pa pb)
    (PSs : Nat → Nat → ℝ) (PPs : Nat → ℝ)
    (hPSs : ∀ s e, AdmC m M s e → e ≤ n → IsBestSel (gaussSavings X μ v p s e) ca cb (PSs s e))
    (hPPs : ∀ t, t < n → IsBestSel (l2Savings X p t (t + 1)) pa pb (PPs t)) :
    let PS := fun s e => penalise eps (gaussSavings X μ v p s e) ca cb
    let PP := fun t => penalise eps (l2Savings X p t (t + 1)) pa pb
    let r := runCapaG pick pr PS PP (ca + sumL cb) m M delay n
    ValidAnoms m M 0 r.2 n ∧ anomVal PSs PPs r.2 = r.1 n ∧
      ∀ l, ValidAnoms m M 0 l n → anomVal PSs PPs l ≤ r.1 n :=
  capa_optimal_wrt_specification_on pick pr hpick hpr eps (fun s e => gaussSavings X μ v p s e)
    (fun t => l2Savings X p t (t + 1)) ca pa cb pb p p m M delay n hm hmM hd hp hp
    (fun s e _ _ => gaussSavings_length X μ v p s e) (fun t _ => l2Savings_length X p t (t + 1))
    (fun s e hadm hen => gaussSavings_nonneg X μ v p s e (by obtain ⟨h1, _⟩ := hadm; omega) hv
      (fun j hj => habove j hj s e hadm.1 hen))
    (fun t _ => l2Savings_nonneg X p t (t + 1))
    (fun s e0 T h1 h2 _ h4 => gaussSavings_subAdd X μ v p m n s e0 T (by omega) h1 h2 h4 habove)
    okc okp PSs PPs hPSs hPPs

/-- **C03, multivariate Gaussian saving, from the rows.**  CAPA with the multivariate saving
    `Saving(GaussianCovCost(param=(μ, Σ)))` — one component per interval: fixed-parameter cost minus
    optimal cost, both defined from the rows (`gcovFixed`, `gcovCost`; `np.cov` / `slogdet` / `inv` in the
    code, tied numerically by C01 / C06) — for collective anomalies and the per-column squared-error saving
    for points.  If `Σ` is positive definite and every interval of at least `m` rows inside `[0, n]` has
    a positive definite sample covariance (otherwise the code raises its documented error), the
    hypotheses about the savings are theorems: non-negativity is `gcovCost_le_gcovFixed` (the log-det
    inequality), sub-additivity under splitting follows from `gcovFixed_add` and `gcovCost_split_le`. -/
theorem capa_gcov_optimal_wrt_specification {p : ℕ} (pick : (Nat → ℝ) → List Nat → Nat) (pr : ℝ → ℝ → Bool)
    (hpick : SoundPickMax pick) (hpr : SoundPruneC pr) (eps : ℝ) (x : ℕ → Fin p → ℝ) (X : ℕ → ℕ → ℝ)
    (μ : Fin p → ℝ) (Sg : Matrix (Fin p) (Fin p) ℝ)
    (ca pa : ℝ) (cb pb : List ℝ) (m M delay n : Nat)
    (hm : 2 ≤ m) (hmM : m ≤ M) (hd : m ≤ delay + 1) (hp : 0 < p)
    (hSg : Sg.PosDef) (hpd : ∀ a b, a + m ≤ b → b ≤ n → (covMat x a b).PosDef)
    (okc : PenOK eps 1 ca cb) (okp : PenOK eps p pa pb)
    (PSs : Nat → Nat → ℝ) (PPs : Nat → ℝ)
    (hPSs : ∀ s e, AdmC m M s e → e ≤ n →
      IsBestSel [gcovFixed x μ Sg s e - gcovCost x s e] ca cb (PSs s e))
    (hPPs : ∀ t, t < n → IsBestSel (l2Savings X p t (t + 1)) pa pb (PPs t)) :
    let PS := fun s e => penalise eps [gcovFixed x μ Sg s e - gcovCost x s e] ca cb
    let PP := fun t => penalise eps (l2Savings X p t (t + 1)) pa pb
    let r := runCapaG pick pr PS PP (ca + sumL cb) m M delay n
    ValidAnoms m M 0 r.2 n ∧ anomVal PSs PPs r.2 = r.1 n ∧
      ∀ l, ValidAnoms m M 0 l n → anomVal PSs PPs l ≤ r.1 n :=
  capa_optimal_wrt_specification_on pick pr hpick hpr eps
    (fun s e => [gcovFixed x μ Sg s e - gcovCost x s e])
    (fun t => l2Savings X p t (t + 1)) ca pa cb pb 1 p m M delay n hm hmM hd (by omega) hp
    (fun _ _ _ _ => rfl) (fun t _ => l2Savings_length X p t (t + 1))
    (fun s e hadm hen w hw => by
      have hlt : s < e := by obtain ⟨h1, _⟩ := hadm; omega
      have := gcovCost_le_gcovFixed x μ Sg s e hlt hSg (hpd s e hadm.1 hen)
      simp only [List.mem_singleton] at hw
      subst hw; linarith)
    (fun t _ => l2Savings_nonneg X p t (t + 1))
    (fun s e0 T h1 h2 _ h4 => by
      have hsplit := gcovCost_split_le x s e0 T (by omega) (by omega) (hpd s T (by omega) h4)
        (hpd s e0 h1 (by omega)) (hpd e0 T h2 h4)
      have hadd := gcovFixed_add x μ Sg s e0 T (by omega) (by omega)
      simp only [SubAdd, and_true]
      linarith)
    okc okp PSs PPs hPSs hPPs

/-- the scores and anomalies of CAPA / MVCAPA are functions of the penalised savings of the admissible
    intervals alone: two saving tables that agree on every collective candidate with `m ≤ e - s ≤ M`,
    `e ≤ n` and on every point `t < n` give identical output (`Lemmas/CapaOn.lean`) -/
theorem capa_output_depends_on_admissible_intervals (PS PS' : Nat → Nat → α) (PP PP' : Nat → α) (K : α)
    (m M delay n : Nat) (hm : 1 ≤ m) (hmM : m ≤ M)
    (h : ∀ s e, s + m ≤ e → e ≤ s + M → e ≤ n → PS s e = PS' s e) (hp : ∀ t, t < n → PP t = PP' t) :
    runCapa PS PP K m M delay n = runCapa PS' PP' K m M delay n :=
  runCapaG_congr_read argmaxL prLt pickExt_argmaxL pickMem_argmaxL PS PS' PP PP' K m M delay n hm hmM h hp

/-! ### Non-vacuity and the negative result for the pinned code -/

/-- the penalty hypotheses are satisfiable: `alpha = 3`, equal betas `[2, 2]` for `p = 2` columns -/
example : PenOK (1 : Int) 2 3 [2, 2] :=
  ⟨by decide, by decide, by intro h; exact absurd (h 2 (by simp)) (by decide), by intro _; rfl⟩

/-- a concrete sub-additive penalised saving: `PS s e = (e - s) - 3`, `K = 3` -/
example : PruneIneq (fun s e => ((e : Int) - s) - 3) 3 2 5 12 := by
  intro s e0 T _ _ _ _; dsimp only; omega

example : (runCapa (fun s e => ((e : Int) - s) - 3) (fun t => if t = 9 then 2 else -1) 3 2 5 1 12).2
    = [(0, 4), (4, 9), (9, 10)] := by decide +kernel

/-- the floor hypothesis of `capa_gauss_optimal_wrt_specification` is satisfiable: the alternating series
    0, 1, 0, 1 has an empirical variance above the floor on every interval of at least two rows in `[0, 4]` -/
example : ∀ a b, a + 2 ≤ b → b ≤ 4 → varFloorConst ≤ segVar (fun i => ((i % 2 : ℕ) : ℝ)) a b := by
  intro a b h1 h2
  have ha : a ≤ 2 := by omega
  interval_cases a <;> interval_cases b <;>
    simp [segVar, segSum, varFloorConst, Finset.sum_Ico_eq_sum_range, Finset.sum_range_succ] <;> norm_num

end Skc
