import Skc.Lemmas.CapaSpec
import Skc.Lemmas.PenH

/-! # C03 — CAPA / MVCAPA anomalies maximise the total penalised saving

Models: `Skc.runCapa` (`Skc/Model/Capa.lean`: `run_base_capa` + `get_anomalies`, abstract in the
penalised savings `PS s e`, `PP t` and the pruning slack `K = alpha + Σ betas`) and `Skc.penalise`
(`Skc/Model/Pen.lean`: the three branches of `penalise_savings`).  The driver composes them exactly
as `run_base_capa` does; the correspondence check ties the composition to `CAPA` and `MVCAPA`.

All theorems: every totally ordered additive group, every `n`, `2 ≤ m ≤ M`, pruning delay `≥ m-1`. -/
namespace Skc
set_option linter.unusedSectionVars false
variable {α : Type} [AddCommGroup α] [LinearOrder α] [IsOrderedAddMonoid α]

/-- the one fact about the penalised savings that pruning relies on -/
def PruneIneq (PS : Nat → Nat → α) (K : α) (m M n : Nat) : Prop :=
  ∀ s e0 T, s + m ≤ e0 → e0 + m ≤ T → T ≤ s + M → T ≤ n → PS s T ≤ PS s e0 + PS e0 T + K

/-- **C03 (DP exactness)**: the reported anomalies are an admissible set (sorted, disjoint,
    collective lengths in `[m, M]`, point anomalies of length 1) whose total penalised saving is the
    final score, and no admissible set saves more. -/
theorem capa_optimal (PS : Nat → Nat → α) (PP : Nat → α) (K : α) (m M delay n : Nat)
    (hm : 2 ≤ m) (hmM : m ≤ M) (hd : m ≤ delay + 1) (H : PruneIneq PS K m M n) :
    let r := runCapa PS PP K m M delay n
    ValidAnoms m M 0 r.2 n ∧ anomVal PS PP r.2 = r.1 n ∧
      ∀ l, ValidAnoms m M 0 l n → anomVal PS PP l ≤ r.1 n := by
  intro r
  have inv := cinv_all PS PP K m M delay n (by omega) hmM hd H n (le_refl _)
  obtain ⟨l, hl1, hl2, hl3, _⟩ :=
    getAnoms_spec PS PP K m M delay n _ hm inv n (le_refl _) (n + 1) [] (by omega)
  have hr2 : r.2 = l := by simp only [r, runCapa, hl1]; simp
  refine ⟨hr2 ▸ hl2, hr2 ▸ hl3, ?_⟩
  intro l' hl'
  have := anomVal_le PS PP K m M delay n _ hm inv l' 0 n (le_refl _) hl'
  rw [inv.opt0, zero_add] at this
  exact this

/-- **C03 (scores)**: every reported cumulative score is the optimum of its prefix; scores are
    `≥ 0` and non-decreasing. -/
theorem capa_prefix (PS : Nat → Nat → α) (PP : Nat → α) (K : α) (m M delay n : Nat)
    (hm : 2 ≤ m) (hmM : m ≤ M) (hd : m ≤ delay + 1) (H : PruneIneq PS K m M n)
    (e : Nat) (he : e ≤ n) :
    let opt := (runCapa PS PP K m M delay n).1
    (∃ l, ValidAnoms m M 0 l e ∧ anomVal PS PP l = opt e) ∧
      (∀ l, ValidAnoms m M 0 l e → anomVal PS PP l ≤ opt e) ∧
      0 ≤ opt e ∧ (∀ e', e' ≤ e → opt e' ≤ opt e) := by
  intro opt
  have inv := cinv_all PS PP K m M delay n (by omega) hmM hd H n (le_refl _)
  obtain ⟨l, _, hl2, hl3, _⟩ :=
    getAnoms_spec PS PP K m M delay n _ hm inv e he (e + 1) [] (by omega)
  refine ⟨⟨l, hl2, hl3⟩, ?_, ?_, ?_⟩
  · intro l' hl'
    have := anomVal_le PS PP K m M delay n _ hm inv l' 0 e he hl'
    rw [inv.opt0, zero_add] at this
    exact this
  · have := opt_mono PS PP K m M delay n _ inv 0 e (by omega) he
    rw [inv.opt0] at this
    exact this
  · intro e' he'
    exact opt_mono PS PP K m M delay n _ inv e' e he' he

/-- every reported anomaly has a strictly positive penalised saving ("no anomaly" wins ties) -/
theorem capa_reported_positive (PS : Nat → Nat → α) (PP : Nat → α) (K : α) (m M delay n : Nat)
    (hm : 2 ≤ m) (hmM : m ≤ M) (hd : m ≤ delay + 1) (H : PruneIneq PS K m M n) :
    ∀ a ∈ (runCapa PS PP K m M delay n).2, 0 < anomVal1 PS PP a := by
  have inv := cinv_all PS PP K m M delay n (by omega) hmM hd H n (le_refl _)
  obtain ⟨l, hl1, _, _, hl4⟩ :=
    getAnoms_spec PS PP K m M delay n _ hm inv n (le_refl _) (n + 1) [] (by omega)
  have hr2 : (runCapa PS PP K m M delay n).2 = l := by simp only [runCapa, hl1]; simp
  rw [hr2]; exact hl4

/-- **C03 (ignore_point_anomalies)**: the model's output with the flag set is the back-tracked list
    filtered by "length ≠ 1"; what is omitted is exactly the point anomalies, and every collective
    anomaly is kept (`m ≥ 2` makes "length 1" and "point" coincide). -/
theorem capa_ignore_points (l : List (Nat × Nat)) (a : Nat × Nat) :
    a ∈ l.filter (fun a => decide (a.2 ≠ a.1 + 1)) ↔ a ∈ l ∧ a.2 ≠ a.1 + 1 := by
  simp [List.mem_filter]

/-! ### The penalised saving of one candidate (`penalise_savings`) -/

/-- **C03 (i), general branch**: the value is that of the `k+1` largest savings for the best `k`,
    and it dominates every non-empty selection `J` of components (`|J|` betas and `alpha` once). -/
theorem penalise_general_best (sav : List α) (alpha : α) (betas : List α)
    (hlen : betas.length = sav.length) (hp : sav ≠ []) :
    let r := penGeneral sav alpha betas
    r.1 < sav.length ∧ r.2 = prefVal sav alpha betas r.1 ∧
      ∀ J : List α, J.Subperm sav → J ≠ [] →
        J.sum - (betas.take J.length).sum - alpha ≤ r.2 := by
  intro r
  obtain ⟨h1, h2, _⟩ := penGeneral_spec sav alpha betas hlen hp
  exact ⟨h1, h2, fun J hJ hne => penGeneral_ge_subset sav alpha betas hlen J hJ hne⟩

/-- pruning inequality, general branch -/
theorem penalise_general_H (x y z : List α) (alpha : α) (betas : List α)
    (h : SubAdd x y z) (hlen : betas.length = x.length) (hp : x ≠ [])
    (hb : ∀ v ∈ betas, 0 ≤ v) :
    (penGeneral x alpha betas).2 ≤
      (penGeneral y alpha betas).2 + (penGeneral z alpha betas).2 + (alpha + betas.sum) :=
  penGeneral_H x y z alpha betas h hlen hp hb

/-- pruning inequality, dense branch (`Σ − alpha`) -/
theorem penalise_dense_H (x y z : List α) (alpha : α) (betas : List α)
    (h : SubAdd x y z) (hb : 0 ≤ betas.sum) :
    x.sum - alpha ≤ (y.sum - alpha) + (z.sum - alpha) + (alpha + betas.sum) := by
  have := subAdd_sum x y z h
  grind

/-- pruning inequality, equal-betas branch (`Σ max(s − β, 0) − alpha`, slack `alpha + p·β`) -/
theorem penalise_equal_H (x y z : List α) (alpha b : α) (h : SubAdd x y z) (hb : 0 ≤ b) :
    (x.map (pos b)).sum - alpha ≤
      ((y.map (pos b)).sum - alpha) + ((z.map (pos b)).sum - alpha)
        + (alpha + (x.map (fun _ => b)).sum) := by
  have := subAdd_pos_sum b hb x y z h
  grind

/-! ### Non-vacuity and the negative result for the pinned code -/

/-- a concrete sub-additive penalised saving: `PS s e = (e - s) - 3`, `K = 3` -/
example : PruneIneq (fun s e => ((e : Int) - s) - 3) 3 2 5 12 := by
  intro s e0 T _ _ _ _; dsimp only; omega

example : (runCapa (fun s e => ((e : Int) - s) - 3) (fun t => if t = 9 then 2 else -1) 3 2 5 1 12).2
    = [(0, 4), (4, 9), (9, 10)] := by decide +kernel

end Skc
