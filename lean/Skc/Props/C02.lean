import Skc.Lemmas.PeltSpec
import Skc.Lemmas.Tables
import Skc.Lemmas.Congr
import Skc.Lemmas.GaussCovIneq

/-! # C02 — PELT returns an exact minimiser of the penalised segmentation cost

Model: `Skc.runPelt` (`Skc/Model/Pelt.lean`), a line-by-line functional transcription of
`run_pelt` + `get_changepoints`; `runPeltCode` is the instance that mirrors the code in `/repo`
(first-minimiser `argmin`, strict pruning test, pruning decisions applied `m - 1` iterations later).
The correspondence check (`harness/props/c02.py`) ties that instance to the implementation.

The theorems hold for every totally ordered additive group `α` (ℤ, ℚ, ℝ, …), every cost table,
every penalty (no sign condition is needed), every `m ≥ 1`, `n ≥ 2m` — no bound on sizes — and for
the whole *policy family*: any selector returning a minimiser, any sound pruning test, any pruning
delay `≥ m - 1`. -/
namespace Skc
set_option linter.unusedSectionVars false
variable {α : Type} [AddCommGroup α] [LinearOrder α] [IsOrderedAddMonoid α]

/-- **C02 (a,c)**: the returned changepoints form an admissible segmentation whose penalised cost
    is the reported final score, and no admissible segmentation is cheaper. -/
theorem pelt_optimal (pick : (Nat → α) → List Nat → Nat) (pr : α → α → Bool)
    (hpick : SoundPick pick) (hpr : SoundPrune pr)
    (cost : Nat → Nat → α) (pen : α) (m delay n : Nat)
    (hm : 1 ≤ m) (hd : m ≤ delay + 1) (hn : 2 * m ≤ n)
    (hsplit : SplitIneq cost m n) :
    let r := runPelt pick pr cost pen m delay n
    ValidFrom m 0 r.2 n ∧ segCost cost pen 0 r.2 n = r.1 n ∧
      ∀ cps, ValidFrom m 0 cps n → r.1 n ≤ segCost cost pen 0 cps n := by
  intro r
  have inv := inv_all pick pr hpick hpr cost pen m delay n hm hd hsplit (n + 1 - 2 * m) (by omega)
  have hlt : n < 2 * m + (n + 1 - 2 * m) := by omega
  obtain ⟨cps, hb, hv, hc⟩ :=
    backtrack_spec cost pen m delay _ _ hm inv n (by omega) hlt (n + 1) [] (by omega)
  have hr2 : r.2 = cps := by
    simp only [r, runPelt, hb]; simp
  refine ⟨hr2 ▸ hv, hr2 ▸ hc, ?_⟩
  intro cps' hv'
  exact opt_le_segCost cost pen m delay _ _ hm inv cps' n hlt hv'

/-- **C02 (b)**: every reported prefix score (`scores[e-1] = opt e`, `m ≤ e ≤ n`) is the optimal
    penalised cost of that prefix: attained by some admissible segmentation, and a lower bound
    for all of them. -/
theorem pelt_prefix_optimal (pick : (Nat → α) → List Nat → Nat) (pr : α → α → Bool)
    (hpick : SoundPick pick) (hpr : SoundPrune pr)
    (cost : Nat → Nat → α) (pen : α) (m delay n : Nat)
    (hm : 1 ≤ m) (hd : m ≤ delay + 1) (hn : 2 * m ≤ n)
    (hsplit : SplitIneq cost m n)
    (e : Nat) (hme : m ≤ e) (hen : e ≤ n) :
    (∃ cps, ValidFrom m 0 cps e ∧
        segCost cost pen 0 cps e = (runPelt pick pr cost pen m delay n).1 e) ∧
      ∀ cps, ValidFrom m 0 cps e →
        (runPelt pick pr cost pen m delay n).1 e ≤ segCost cost pen 0 cps e := by
  have inv := inv_all pick pr hpick hpr cost pen m delay n hm hd hsplit (n + 1 - 2 * m) (by omega)
  have hlt : e < 2 * m + (n + 1 - 2 * m) := by omega
  obtain ⟨cps, _, hv, hc⟩ :=
    backtrack_spec cost pen m delay _ _ hm inv e hme hlt (e + 1) [] (by omega)
  exact ⟨⟨cps, hv, hc⟩, fun cps' hv' => opt_le_segCost cost pen m delay _ _ hm inv cps' e hlt hv'⟩

/-- C02 for the instance that mirrors the code in `/repo` (`delay = m - 1`). -/
theorem peltCode_optimal (cost : Nat → Nat → α) (pen : α) (m n : Nat)
    (hm : 1 ≤ m) (hn : 2 * m ≤ n) (hsplit : SplitIneq cost m n) :
    let r := runPeltCode cost pen m n
    ValidFrom m 0 r.2 n ∧ segCost cost pen 0 r.2 n = r.1 n ∧
      ∀ cps, ValidFrom m 0 cps n → r.1 n ≤ segCost cost pen 0 cps n :=
  pelt_optimal argminL prStrict soundPick_argminL soundPrune_strict cost pen m (m - 1) n hm
    (by omega) hn hsplit

theorem peltCode_prefix_optimal (cost : Nat → Nat → α) (pen : α) (m n : Nat)
    (hm : 1 ≤ m) (hn : 2 * m ≤ n) (hsplit : SplitIneq cost m n)
    (e : Nat) (hme : m ≤ e) (hen : e ≤ n) :
    (∃ cps, ValidFrom m 0 cps e ∧ segCost cost pen 0 cps e = (runPeltCode cost pen m n).1 e) ∧
      ∀ cps, ValidFrom m 0 cps e → (runPeltCode cost pen m n).1 e ≤ segCost cost pen 0 cps e :=
  pelt_prefix_optimal argminL prStrict soundPick_argminL soundPrune_strict cost pen m (m - 1) n hm
    (by omega) hn hsplit e hme hen

/-! ### Non-vacuity: a concrete non-trivial instance meets the hypotheses -/

/-- a super-additive integer table cost: the squared segment length -/
def exCost (s e : Nat) : Int := ((e : Int) - s) * ((e : Int) - s)

example : SplitIneq exCost 2 8 := by
  intro s t e hadm hte _
  have hst : s ≤ t := by rcases hadm with ⟨h, _⟩ | ⟨_, h⟩ <;> omega
  have ha : (0 : Int) ≤ (t : Int) - s := by omega
  have hb : (0 : Int) ≤ (e : Int) - t := by omega
  simp only [exCost]
  nlinarith [mul_nonneg ha hb]

/-- on this instance PELT places three changepoints and the reported optimum is 19 -/
example : (runPeltCode exCost 1 2 8).2 = [2, 4, 6] ∧ (runPeltCode exCost 1 2 8).1 8 = 19 := by
  decide +kernel


/-! ### composed down to the data: PELT with the squared-error cost -/

/-- sum of the residual sums of squares of the segments of `[s, e)` cut at `cps`, plus the penalty
    per changepoint — the objective of the property, written on the rows -/
noncomputable def rssObjective (x : ℕ → ℝ) (pen : ℝ) (cps : List Nat) (n : Nat) : ℝ :=
  segCost (fun s e => rss x (segMean x s e) s e) pen 0 cps n

/-- **C02, squared-error cost, from the rows**: with the cost table the code builds from prefix sums,
    the reported changepoints are admissible, their penalised residual sum of squares is the final
    score, and no admissible segmentation has a smaller one.  (`SplitIneq` is discharged by
    `l2Table_split`; table entries are residual sums of squares by `l2Table_eq_rss`, C01.) -/
theorem pelt_l2_exact (x : ℕ → ℝ) (pen : ℝ) (m n : ℕ) (hm : 1 ≤ m) (hn : 2 * m ≤ n) :
    let r := runPeltCode (l2Table x) pen m n
    ValidFrom m 0 r.2 n ∧ rssObjective x pen r.2 n = r.1 n ∧
      ∀ cps, ValidFrom m 0 cps n → r.1 n ≤ rssObjective x pen cps n := by
  intro r
  obtain ⟨h1, h2, h3⟩ := peltCode_optimal (l2Table x) pen m n hm hn (l2Table_split x m n hm)
  have hc : ∀ cps, ValidFrom m 0 cps n → segCost (l2Table x) pen 0 cps n = rssObjective x pen cps n :=
    fun cps hv => segCost_congr_valid _ _ pen m hm (fun a b hab => l2Table_eq_rss x a b hab) cps 0 n hv
  refine ⟨h1, ?_, ?_⟩
  · rw [← hc _ h1]; exact h2
  · intro cps hv
    rw [← hc cps hv]; exact h3 cps hv

/-! ### composed down to the data: PELT with the univariate Gaussian cost -/

/-- **C02, univariate Gaussian cost, from the rows**: with the cost table the code builds from prefix sums
    (`gaussTable`: `n log(2π max(var, 1e-16)) + n`), and every interval of at least `m` rows inside `[0, n]`
    having an empirical variance at or above the floor, the reported segmentation is admissible, its
    penalised cost is the final score, and no admissible segmentation costs less.  (`SplitIneq` is
    discharged by `gaussTable_split`; at the floor the split inequality can fail, which is why the
    property restricts the claim for this cost.) -/
theorem pelt_gauss_exact (x : ℕ → ℝ) (pen : ℝ) (m n : ℕ) (hm : 1 ≤ m) (hn : 2 * m ≤ n)
    (habove : ∀ s e, s + m ≤ e → e ≤ n → varFloorConst ≤ segVar x s e) :
    let r := runPeltCode (gaussTable x) pen m n
    ValidFrom m 0 r.2 n ∧ segCost (gaussTable x) pen 0 r.2 n = r.1 n ∧
      ∀ cps, ValidFrom m 0 cps n → r.1 n ≤ segCost (gaussTable x) pen 0 cps n :=
  peltCode_optimal (gaussTable x) pen m n hm hn (gaussTable_split x m n hm habove)

/-! ### composed down to the data: PELT with the multivariate Gaussian cost -/

/-- **C02, multivariate Gaussian cost, from the rows**: when every interval of at least `m` rows inside
    `[0, n]` has a positive definite sample covariance (otherwise the code raises its documented error),
    PELT run on the cost defined from the rows (`gcovCost`: `np.cov` / `slogdet` in the code, tied
    numerically by C01) returns an admissible segmentation whose penalised cost is the final score, and no
    admissible segmentation has a smaller one.  `SplitIneq` is discharged by `gcovCost_split_le`
    (Lemmas/GaussCovIneq.lean). -/
theorem pelt_gcov_exact {p : ℕ} (x : ℕ → Fin p → ℝ) (pen : ℝ) (m n : ℕ) (hm : 1 ≤ m) (hn : 2 * m ≤ n)
    (hpd : ∀ s e, s + m ≤ e → e ≤ n → (covMat x s e).PosDef) :
    let r := runPeltCode (gcovCost x) pen m n
    ValidFrom m 0 r.2 n ∧ segCost (gcovCost x) pen 0 r.2 n = r.1 n ∧
      ∀ cps, ValidFrom m 0 cps n → r.1 n ≤ segCost (gcovCost x) pen 0 cps n := by
  apply peltCode_optimal (gcovCost x) pen m n hm hn
  intro s t e hadm hte hen
  have hst : s + m ≤ t := by rcases hadm with ⟨h0, h⟩ | ⟨_, h⟩ <;> omega
  exact gcovCost_split_le x s t e (by omega) (by omega) (hpd s e (by omega) hen) (hpd s t hst (by omega))
    (hpd t e hte hen)

/-! ### Negative result: the pinned upstream pruning (`delay = 0`) is not exact for `m = 3` -/

def witnessTbl : List (List Int) :=
  [[0, 3, 5, 9, 11, 20, 27, 34, 43], [0, 0, 0, 5, 6, 15, 23, 31, 39],
   [0, 0, 0, 2, 6, 11, 15, 26, 34], [0, 0, 0, 0, 0, 5, 11, 16, 27],
   [0, 0, 0, 0, 0, 1, 9, 16, 22], [0, 0, 0, 0, 0, 0, 3, 9, 15], [0, 0, 0, 0, 0, 0, 0, 5, 9],
   [0, 0, 0, 0, 0, 0, 0, 0, 1], [0, 0, 0, 0, 0, 0, 0, 0, 0]]
def witnessCost (s e : Nat) : Int := (witnessTbl.getD s []).getD e 0

/-- with pruning decisions applied immediately (the code before the `fix:` commit) the model
    reports 35 although the segmentation `[4]` costs 33: the hypothesis `m ≤ delay + 1` of
    `pelt_optimal` cannot be dropped. -/
theorem pinned_pelt_not_exact :
    ¬ (∀ cps, ValidFrom 3 0 cps 8 →
        (runPelt argminL prStrict witnessCost 0 3 0 8).1 8 ≤ segCost witnessCost 0 0 cps 8) := by
  intro h
  have := h [4] (by simp [ValidFrom])
  revert this
  decide +kernel

/-- the witness table satisfies the split inequality, so it is the delay that matters -/
theorem witness_split : ∀ s ∈ List.range 9, ∀ t ∈ List.range 9, ∀ e ∈ List.range 9,
    s < t → t < e → witnessCost s t + witnessCost t e ≤ witnessCost s e := by
  decide +kernel

/-- and the repaired delay gives the optimum on the same table -/
example : (runPeltCode witnessCost 0 3 8).1 8 = 33 ∧ (runPeltCode witnessCost 0 3 8).2 = [4] := by
  decide +kernel

end Skc
