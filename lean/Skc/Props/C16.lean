import Skc.Lemmas.PenH
import Skc.Lemmas.PenSpec
import Mathlib.Data.List.Nodup
import Mathlib.Data.List.Perm.Basic

/-! # C16 — MVCAPA's affected columns are the optimal sparse subset for each anomaly

Model: `findAffected` (`Skc/Model/Pen.lean`): order the columns by decreasing saving, take the
cumulative penalised sum, return the first `argmax + 1` columns.  Ties between savings are excluded
by the property (NumPy's `argsort` order among ties is unspecified); the model uses a stable sort. -/
namespace Skc
set_option linter.unusedSectionVars false
variable {α : Type} [AddCommGroup α] [LinearOrder α] [IsOrderedAddMonoid α]

/-- **C16**: the affected columns of an anomaly with per-column savings `sav`
    * are the first `k+1` columns in order of decreasing saving, where `k` maximises the cumulative
      saving minus the penalty for `k+1` components (`prefVal`);
    * are non-empty, pairwise distinct valid column positions;
    * are listed in order of decreasing saving;
    * and no excluded column has a larger saving than an included one. -/
theorem affected_columns_optimal (sav : List α) (alpha : α) (betas : List α)
    (hlen : betas.length = sav.length) (hp : sav ≠ []) :
    let k := (penGeneral sav alpha betas).1
    let cols := findAffected sav alpha betas
    cols = ((orderDesc sav).take (k + 1)).map (·.1) ∧
    cols.length = k + 1 ∧ k < sav.length ∧
    (∀ k', k' < sav.length → prefVal sav alpha betas k' ≤ prefVal sav alpha betas k) ∧
    cols.Nodup ∧ (∀ c ∈ cols, c < sav.length) ∧
    (cols.map (fun c => sav.getD c 0)).Pairwise (· ≥ ·) ∧
    (∀ c ∈ cols, ∀ c', c' < sav.length → c' ∉ cols → sav.getD c' 0 ≤ sav.getD c 0) := by
  intro k cols
  obtain ⟨hk, hval, hmax⟩ := penGeneral_spec sav alpha betas hlen hp
  have hcols : cols = ((orderDesc sav).take (k + 1)).map (·.1) := rfl
  have hlenO : (orderDesc sav).length = sav.length := orderDesc_length sav
  have hidx := orderDesc_idx_perm sav
  have hnodupAll : ((orderDesc sav).map (·.1)).Nodup := hidx.nodup_iff.2 List.nodup_range
  have hsub : cols.Sublist ((orderDesc sav).map (·.1)) := by
    rw [hcols, List.map_take]; exact List.take_sublist _ _
  have hsorted := orderDesc_vals_sorted sav
  -- value of a listed column = its entry's value
  have hentry : ∀ e ∈ orderDesc sav, sav.getD e.1 0 = e.2 := orderDesc_entry sav
  refine ⟨hcols, ?_, hk, ?_, hsub.nodup hnodupAll, ?_, ?_, ?_⟩
  · rw [hcols, List.length_map, List.length_take, hlenO]; omega
  · intro k' hk'
    have := hmax k' hk'
    rw [hval] at this
    exact this
  · intro c hc
    have := hidx.subset (hsub.subset hc)
    simpa using this
  · -- decreasing order of savings
    have h1 : cols.map (fun c => sav.getD c 0) = ((orderDesc sav).take (k + 1)).map (·.2) := by
      rw [hcols, List.map_map]
      apply List.map_congr_left
      intro e he
      exact hentry e (List.mem_of_mem_take he)
    rw [h1, List.map_take]
    exact hsorted.sublist (List.take_sublist _ _)
  · -- excluded columns do not beat included ones
    intro c hc c' hc'lt hc'not
    rw [hcols] at hc hc'not
    obtain ⟨e, he, rfl⟩ := List.mem_map.1 hc
    -- c' occurs among the dropped entries
    have hc'all : c' ∈ (orderDesc sav).map (·.1) := hidx.symm.subset (by simpa using hc'lt)
    obtain ⟨e', he', rfl⟩ := List.mem_map.1 hc'all
    have he'drop : e' ∈ (orderDesc sav).drop (k + 1) := by
      have hsplit := List.take_append_drop (k + 1) (orderDesc sav)
      rw [← hsplit] at he'
      rcases List.mem_append.1 he' with h | h
      · exact absurd (List.mem_map.2 ⟨e', h, rfl⟩) hc'not
      · exact h
    rw [hentry e (List.mem_of_mem_take he), hentry e' (List.mem_of_mem_drop he'drop)]
    -- pairwise ≥ across take/drop
    have hpw : (orderDesc sav).Pairwise (fun a b => a.2 ≥ b.2) := (List.pairwise_map).1 hsorted
    have hsplit := List.take_append_drop (k + 1) (orderDesc sav)
    rw [← hsplit] at hpw
    exact (List.pairwise_append.1 hpw).2.2 e he e' he'drop

/-- **C16 (optimal subset)**: the savings of the affected columns are a selection of the anomaly's
    savings whose value — summed savings minus the sparse penalty for that many components minus the
    constant penalty — is the maximum over *all* non-empty selections of columns (not only over
    prefixes of the sorted order), and equals the penalised saving of the general branch. -/
theorem affected_columns_best_subset (sav : List α) (alpha : α) (betas : List α)
    (hlen : betas.length = sav.length) (hp : sav ≠ []) :
    let J := (findAffected sav alpha betas).map (fun c => sav.getD c 0)
    J.Subperm sav ∧ J ≠ [] ∧ selVal alpha betas J = (penGeneral sav alpha betas).2 ∧
      ∀ J', J'.Subperm sav → J' ≠ [] → selVal alpha betas J' ≤ selVal alpha betas J := by
  intro J
  obtain ⟨hk, hval, _⟩ := penGeneral_spec sav alpha betas hlen hp
  set k := (penGeneral sav alpha betas).1
  have hJ : J = ((orderDesc sav).map (·.2)).take (k + 1) := by
    simp only [J, findAffected, List.map_map, ← List.map_take]
    apply List.map_congr_left
    intro e he
    exact orderDesc_entry sav e (List.mem_of_mem_take he)
  have hl : J.length = k + 1 := by
    rw [hJ]; simp [orderDesc_length]; omega
  have hsel : selVal alpha betas J = (penGeneral sav alpha betas).2 := by
    rw [hval]; simp only [selVal, prefVal, hl]; rw [hJ]
  refine ⟨?_, ?_, hsel, ?_⟩
  · rw [hJ]
    exact ((List.take_sublist _ _).subperm).trans (orderDesc_vals_perm sav).subperm
  · intro h; rw [h] at hl; simp at hl
  · intro J' hJ' hne
    rw [hsel]
    exact penGeneral_ge_subset sav alpha betas hlen J' hJ' hne

/-- non-vacuity: the hypotheses are satisfiable (savings 5, 1, 9 with penalties 1, 2, 3; the driver
    evaluates `findAffected [5, 1, 9] 0 [1, 2, 3] = [2, 0]` — `mergeSort` does not reduce in the
    kernel, so the value itself is checked by the correspondence, not by `decide`) -/
example : ([1, 2, 3] : List Int).length = [(5 : Int), 1, 9].length ∧ [(5 : Int), 1, 9] ≠ [] := by
  simp

end Skc
